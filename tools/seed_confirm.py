#!/usr/bin/env python3
"""Confirm staged seeded defects in a scratch worktree and file the confirmed ones under seeded/<id>/.
usage: tools/seed_confirm.py /root/seed_stage [Cxx ...]"""
import json, os, shutil, subprocess, sys, glob
stage = sys.argv[1]
only = set(sys.argv[2:])
TAG = os.environ.get("SEED_TAG", "")          # e.g. SEED_TAG=r2 -> ids C01-r2-1
VERIF = os.path.dirname(os.path.dirname(os.path.abspath(__file__)))
WT = "/tmp/seed_wt"
def sh(cmd, **kw):
    return subprocess.run(cmd, shell=True, capture_output=True, text=True, **kw)
sh("git -C /repo worktree remove --force %s" % WT)
r = sh("git -C /repo worktree add -q --detach %s HEAD" % WT)
assert r.returncode == 0, r.stderr
env = dict(os.environ, PYTHONDONTWRITEBYTECODE="1")
try:
    for d in sorted(glob.glob(os.path.join(stage, "seed_C*", "*"))):
        pid = os.path.basename(os.path.dirname(d))[5:]
        k = os.path.basename(d)
        if only and pid not in only:
            continue
        sid = "%s-%s%s" % (pid, (TAG + "-") if TAG else "", k)
        patch, demo = os.path.join(d, "patch.diff"), os.path.join(d, "demo.py")
        if not (os.path.exists(patch) and os.path.exists(demo)):
            print(sid, "incomplete"); continue
        sh("git -C %s checkout -q -- . && git -C %s clean -fdq" % (WT, WT))
        clean = subprocess.run(["/venv/bin/python", demo, WT], capture_output=True, text=True, env=env, timeout=600)
        ap = sh("git -C %s apply %s" % (WT, patch))
        if ap.returncode != 0:
            print(sid, "patch does not apply:", ap.stderr.strip()[:200]); continue
        # (PYTHONPATH: /venv has an editable install of /repo/modules - without it the suite would test /repo, not the worktree)
        tests = subprocess.run("cd %s && /venv/bin/python -m pytest -q -p no:cacheprovider test 2>&1 | tail -1" % WT, shell=True, capture_output=True, text=True, env=dict(env, PYTHONPATH=WT + "/modules"))
        try:
            broken = subprocess.run(["/venv/bin/python", demo, WT], capture_output=True, text=True, env=env, timeout=600)
            brc, bout = broken.returncode, (broken.stdout + broken.stderr)[-600:]
        except subprocess.TimeoutExpired:
            brc, bout = 1, "demo timed out (hang) with the patch"
        sh("git -C %s checkout -q -- . && git -C %s clean -fdq" % (WT, WT))
        ok = clean.returncode == 0 and brc == 1 and "55 passed" in tests.stdout and "failed" not in tests.stdout
        print(sid, "CONFIRMED" if ok else "REJECTED", "| clean rc", clean.returncode, "| patched rc", brc, "|", tests.stdout.strip())
        if ok:
            dst = os.path.join(VERIF, "seeded", sid)
            os.makedirs(dst, exist_ok=True)
            shutil.copy(patch, os.path.join(dst, "patch.diff"))
            shutil.copy(demo, os.path.join(dst, "demo.py"))
            notes = open(os.path.join(d, "notes.txt")).read() if os.path.exists(os.path.join(d, "notes.txt")) else ""
            meta = {"id": sid, "property": pid, "needs_to_manifest": notes.strip(),
                    "base_commit": sh("git -C /repo rev-parse --short HEAD").stdout.strip(),
                    "confirmed": {"ran": ["git apply patch.diff in a scratch worktree of /repo HEAD",
                                          "/venv/bin/python -m pytest -q test  -> " + tests.stdout.strip(),
                                          "demo.py <patched worktree> -> exit %d" % brc,
                                          "demo.py <clean worktree> -> exit %d" % clean.returncode],
                                  "demo_output_with_patch": bout},
                    "detected_by": None}
            old = os.path.join(dst, "meta.json")
            if os.path.exists(old):
                try:
                    meta["detected_by"] = json.load(open(old)).get("detected_by")
                except Exception:
                    pass
            json.dump(meta, open(old, "w"), indent=1)
finally:
    sh("git -C /repo worktree remove --force %s" % WT)
