#!/bin/sh
# tools/run_all.sh quick|thorough  - every property's check in sequence, summary lines in /tmp/all_<tier>.log
tier=${1:-quick}
cd "$(dirname "$0")/.." || exit 3
: > /tmp/all_$tier.log
for p in C01 C02 C03 C04 C05 C06 C07 C08 C09 C10 C11 C12 C13 C14 C15 C16 C17 C18 C19 C20; do
  ./check $p --tier $tier > /tmp/all_${tier}_$p.log 2>&1
  echo "$p rc=$? $(grep "^$p tier" /tmp/all_${tier}_$p.log)" >> /tmp/all_$tier.log
done
