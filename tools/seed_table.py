#!/usr/bin/env python3
"""Regenerate the seeded-changes table in DESIGN.md from seeded/*/meta.json."""
import glob, json, os, re
V = os.path.dirname(os.path.dirname(os.path.abspath(__file__)))
rows = ["| seed | breaks | what it needs to manifest (first line of the author's note) | caught by |", "|---|---|---|---|"]
for d in sorted(glob.glob(os.path.join(V, "seeded", "C*"))):
    m = json.load(open(os.path.join(d, "meta.json")))
    note = (m.get("needs_to_manifest") or "").strip().splitlines()
    note = " ".join(note[:2])[:200].replace("|", "/")
    det = m.get("detected_by") or {}
    caught = ", ".join("%s (%s)" % (k, v.get("first_line", "").split("replay=")[-1].split("/")[-1].replace(".json", "") or v["result"])
                       for k, v in sorted(det.items()) if v.get("result") == "DETECTED") or "not yet run / missed: " + ", ".join(
        "%s=%s" % (k, v.get("result")) for k, v in det.items())
    rows.append("| %s | %s | %s | %s |" % (m["id"], m["property"], note, caught))
p = os.path.join(V, "DESIGN.md")
s = open(p).read()
block = "<!-- SEED-TABLE-BEGIN -->\n" + "\n".join(rows) + "\n<!-- SEED-TABLE-END -->"
s = re.sub(r"<!-- SEED-TABLE-BEGIN -->.*<!-- SEED-TABLE-END -->", lambda m: block, s, flags=re.S)
open(p, "w").write(s)
print(len(rows) - 2, "rows")
