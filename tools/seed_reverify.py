#!/usr/bin/env python3
"""Re-run the project's test suite against every seeded change WITH the changed tree on sys.path.
(/venv has an editable install pointing at /repo/modules, so `cd <worktree> && pytest test` alone tests
/repo, not the worktree: PYTHONPATH=<worktree>/modules must be set.)  Records meta["suite_with_patch"]."""
import glob, json, os, subprocess, sys
VERIF = os.path.dirname(os.path.dirname(os.path.abspath(__file__)))
WT = "/tmp/seed_reverify_wt"
def sh(cmd, **kw):
    return subprocess.run(cmd, shell=True, capture_output=True, text=True, **kw)
sh("git -C /repo worktree remove --force %s" % WT)
assert sh("git -C /repo worktree add -q --detach %s HEAD" % WT).returncode == 0
env = dict(os.environ, PYTHONDONTWRITEBYTECODE="1", PYTHONPATH=WT + "/modules")
ids = sys.argv[1:] or sorted(os.path.basename(d) for d in glob.glob(os.path.join(VERIF, "seeded", "C*")))
try:
    base = sh("cd %s && /venv/bin/python -m pytest -q -p no:cacheprovider test 2>&1 | tail -1" % WT, env=env).stdout.strip()
    print("clean tree:", base)
    for sid in ids:
        d = os.path.join(VERIF, "seeded", sid)
        sh("git -C %s checkout -q -- . && git -C %s clean -fdq" % (WT, WT))
        if sh("git -C %s apply %s/patch.diff" % (WT, d)).returncode != 0:
            print(sid, "PATCH DOES NOT APPLY"); continue
        chk = sh("cd %s && /venv/bin/python -c \"import pel.datastream, sys; print(pel.datastream.__file__)\"" % WT, env=env).stdout.strip()
        assert chk.startswith(WT), chk
        r = sh("cd %s && /venv/bin/python -m pytest -q -p no:cacheprovider test 2>&1 | tail -1" % WT, env=env).stdout.strip()
        ok = "55 passed" in r and "failed" not in r
        meta = json.load(open(os.path.join(d, "meta.json")))
        meta["suite_with_patch"] = r
        json.dump(meta, open(os.path.join(d, "meta.json"), "w"), indent=1)
        print(sid, "OK" if ok else "SUITE FAILS", "|", r)
finally:
    sh("git -C /repo worktree remove --force %s" % WT)
