#!/usr/bin/env python3
"""Run checks against seeded defects:  tools/seedtest.py [--tier quick|thorough] [--props C01,C02] <seed-id|all> ...
Applies seeded/<id>/patch.diff to a scratch worktree of /repo HEAD (so that /repo itself stays usable while
this runs), runs VERIF_REPO=<worktree> ./check <property> --no-evidence, removes the worktree, and records the
outcome in seeded/<id>/meta.json (detected_by).  (With --in-repo the patch is applied to /repo itself.)"""
import argparse, glob, json, os, subprocess, sys, time
VERIF = os.path.dirname(os.path.dirname(os.path.abspath(__file__)))
ap = argparse.ArgumentParser()
ap.add_argument("--tier", default="quick")
ap.add_argument("--props", default="")
ap.add_argument("--only", default="")
ap.add_argument("--in-repo", action="store_true")
ap.add_argument("ids", nargs="+")
a = ap.parse_args()
ids = a.ids
if ids == ["all"]:
    ids = sorted(os.path.basename(d) for d in glob.glob(os.path.join(VERIF, "seeded", "C*")))
def sh(cmd):
    return subprocess.run(cmd, shell=True, capture_output=True, text=True)
WT = "/repo" if a.in_repo else "/tmp/seedrun_%d" % os.getpid()
if a.in_repo:
    assert sh("git -C /repo status --porcelain").stdout.strip() == "", "/repo not clean"
else:
    r = sh("git -C /repo worktree add -q --detach %s HEAD" % WT)
    assert r.returncode == 0, r.stderr
for sid in ids:
    d = os.path.join(VERIF, "seeded", sid)
    meta = json.load(open(os.path.join(d, "meta.json")))
    props = a.props.split(",") if a.props else [meta["property"]]
    ap_ = sh("git -C %s apply %s/patch.diff" % (WT, d))
    if ap_.returncode != 0:
        print(sid, "PATCH DOES NOT APPLY", ap_.stderr[:200]); continue
    try:
        for pid in props:
            t0 = time.time()
            cmd = "cd %s && VERIF_REPO=%s ./check %s --tier %s --no-evidence" % (VERIF, WT, pid, a.tier) + (" --only '%s'" % a.only if a.only else "")
            r = sh(cmd)
            viol = [l for l in r.stdout.splitlines() if l.startswith("VIOLATION")]
            herr = [l for l in r.stdout.splitlines() if l.startswith("HARNESS-ERROR")]
            res = "DETECTED" if (r.returncode == 1 and viol) else ("harness-error" if r.returncode == 3 else "missed")
            print("%-8s by %s/%s: %-13s rc=%d %4.0fs  %s" % (sid, pid, a.tier, res, r.returncode, time.time() - t0,
                  (viol[0] if viol else (herr[0][:160] if herr else ""))))
            if not a.only:
                det = meta.get("detected_by") or {}
                det["%s/%s" % (pid, a.tier)] = {"result": res, "first_line": viol[0] if viol else (herr[0][:300] if herr else "")}
                meta["detected_by"] = det
                json.dump(meta, open(os.path.join(d, "meta.json"), "w"), indent=1)
    finally:
        sh("git -C %s checkout -- . && git -C %s clean -fdq" % (WT, WT))
if a.in_repo:
    assert sh("git -C /repo status --porcelain").stdout.strip() == "", "/repo not clean after run"
else:
    sh("git -C /repo worktree remove --force %s" % WT)
