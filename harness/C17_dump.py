"""C17 - an I/O drawer dump is split into ILOG and trace regions that partition it."""
from vlib.api import *
from vlib.stubs import patched
from io_drawer import dump
from harness.C13_hexdump import _render

FUNCTIONS = ["io_drawer.dump.parse_dump_data", "dump._format_ilog_data", "dump._format_trace_data", "dump.parse_dump_file",
             "pel.hexdump.parse", "dump.HEX_DUMP_LINE_FORMATS"]
START = b"\x02\x20\x01\x42"
NAMES = [b"IICS", b"IICM", b"POWR", b"FANS", b"INFO", b"ERRL"]


def H(name, n=16):
    return START + name + bytes((i * 5 + 1) % 251 for i in range(n - 8))


I8 = b"\x00\x01\x00\x02\x01\x04\x00\x00"
LAYOUTS = {
    "none": [("fix", I8 * 3)],
    "at0": [("cand", b"IICS"), ("fix", bytes(range(40, 60)))],
    "two": [("fix", I8 * 2), ("cand", b"POWR"), ("fix", bytes(range(20))), ("cand", b"FANS"), ("fix", bytes(range(16)))],
    "adjacent": [("fix", I8), ("cand", b"INFO"), ("cand", b"ERRL"), ("fix", bytes(range(24)))],
    "six": [("fix", I8)] + [x for nm in (b"ERRL", b"IICS", b"FANS", b"INFO", b"POWR", b"IICM") for x in (("hdr", nm), ("fix", bytes(range(6))))],
    "bare-name": [("fix", I8 + b"\x00\x00POWR\x00\x00"), ("cand", b"FANS"), ("fix", bytes(range(12)))],
    "twice": [("fix", I8), ("cand", b"FANS"), ("fix", bytes(range(10))), ("cand", b"FANS"), ("fix", bytes(range(10)))],
    "truncated": [("fix", I8), ("cand", b"POWR"), ("cand", b"INFO"), ("fix", b"\x00\x10")],
    "three": [("fix", I8), ("cand", b"POWR"), ("fix", bytes(range(9))), ("hdr", b"IICM"), ("fix", bytes(range(5))), ("cand", b"ERRL")],
    "tiny": [("symlen", 7)],
    # both occurrences of the name are certainly headers; one content byte of the first buffer is symbolic
    "twice-fixed": [("fix", I8), ("hdr", b"FANS"), ("fix", bytes(range(5))), ("sym1", None), ("fix", bytes(range(4))), ("hdr", b"FANS"),
                    ("fix", bytes(range(10))), ("hdr", b"INFO"), ("fix", bytes(range(6)))],
    "odd": [("fix", I8 + b"\x00\x07\x01"), ("cand", b"FANS"), ("fix", bytes(range(13))), ("hdr", b"INFO"), ("fix", bytes(range(3)))],
}
HARNESSES = [
    {"fn": "h_partition", "cases": sorted(LAYOUTS), "quick_cases": ["at0", "two", "adjacent", "truncated", "none", "three", "tiny", "odd", "twice", "twice-fixed"],
     "timeout": {"quick": 150, "thorough": 600}},
    {"fn": "h_file", "cases": ["f%d:L%d:u%d:c%d" % (f, L, u, c) for f in (0, 1) for L in (23, 37, 40, 180) for u in (0, 1) for c in (0, 1)] + ["empty", "f0:L40:u1:c0:pre", "f1:L37:u0:c1:pre", "f0:L5:u0:c1", "f1:L3:u1:c0", "f0:L37:u1:c1:nonl", "f1:L23:u0:c1:nonl", "f1:L32:u1:c0:nonl"],
     "quick_cases": ["f0:L40:u1:c0:pre", "f1:L37:u0:c1:pre", "f1:L3:u1:c0", "f0:L37:u1:c1:nonl", "f1:L23:u0:c1:nonl", "f0:L40:u1:c0", "f1:L37:u0:c1", "f0:L180:u1:c1", "f1:L23:u1:c0", "empty"],
     "timeout": {"quick": 150, "thorough": 400}},
]
BOUNDS = {"layouts": "11 catalogue layouts (1..7 symbolic bytes, headers at odd offsets, no header, header at offset 0, two buffers, adjacent headers, all six names shuffled, a "
                     "name without the 4-byte start inside ILOG data, the same name twice, truncated buffers, three buffers); the 4 "
                     "start bytes of up to two candidate headers are symbolic (so each may or may not be a header)",
          "files": "dump files of 3, 5, 23, 37, 40, 180 bytes in both hex formats, either digit case, cut / padded last line, the last byte "
                   "symbolic; optionally preceded by comment and blank lines, optionally without a final newline"}
ASSUMPTIONS = ["the stand-alone decoders are replaced by recorders that capture the exact slice they are handed (E6); C14 / C15 cover them",
               "'recognised header' = first occurrence of start bytes + name for each of the six names (DESIGN.md 9)",
               "open() of the dump file replaced by an in-memory file"]
OUTSIDE = ["buffers longer than 180 bytes", "more than two symbolic header candidates"]


def build(layout):
    parts, cands = [], []
    for kind, val in LAYOUTS[layout]:
        if kind == "fix":
            parts.append(val)
        elif kind == "sym1":
            parts.append(sym_bytes("c", 1))
        elif kind == "symlen":          # 1..val symbolic bytes (shorter than one ILOG entry)
            n = sym_int("n", 1, val)
            for cand in range(1, val + 1):
                if n == cand:
                    parts.append(sym_bytes("t", cand))
        elif kind == "hdr":
            parts.append(START + val)
        else:
            s = sym_bytes("s%d" % len(cands), 4)
            cands.append(s)
            parts += [s, val]
    return mkbytes(*parts)


def run(data):
    rec = []
    with patched(dump, parse_ilog_data=lambda d, f: rec.append(("ilog", d, f)) or ["<ilog %d>" % len(d)],
                 parse_trace_data=lambda d, f: rec.append(("trace", d, f)) or ["<trace %d>" % len(d)]):
        lines = dump.parse_dump_data(memoryview(data), "/hdr.h", "/strings")
    return rec, lines


def expected_lines(rec):
    out = []
    for kind, d, f in rec:
        out += ["ILOG" if kind == "ilog" else "Trace", "", "<%s %d>" % (kind, len(d)), "", dump.DIVIDER_LINE, ""]
    return out


def h_partition() -> bool:
    """
    post: _
    """
    data = build(CASE)
    n = len(data)
    try:
        rec, lines = run(data)
    except Exception as e:
        return verdict(False, obs={"exception": repr(e)})
    cps = [data[i] for i in range(n)]
    # independent oracle: first occurrence of start + name, for each of the six names
    offs = []
    for nm in NAMES:
        pat = list(START + nm)
        for i in range(n - 7):
            if sym_all([cps[i + j] == pat[j] for j in range(8)]):
                offs.append(i)
                break
    offs = sorted(offs)
    bounds = [0] + offs + [n]
    want = [(bounds[0], bounds[1])] + [(bounds[k], bounds[k + 1]) for k in range(1, len(bounds) - 1)]
    conds = [len(rec) == len(want), rec[0][0] == "ilog" if rec else False]
    if len(rec) == len(want):
        for k, ((kind, d, f), (a, b)) in enumerate(zip(rec, want)):
            conds.append(kind == ("ilog" if k == 0 else "trace"))
            conds.append(f == ("/hdr.h" if k == 0 else "/strings"))
            conds.append(len(d) == b - a)
            if len(d) == b - a:
                conds.append(bytes_eq(d, cps[a:b]))
        conds.append(lines == expected_lines(rec))
    return verdict(sym_all(conds), obs={"regions": [(k, len(d)) for k, d, f in rec], "want": want})


class _F:
    def __init__(self, lines):
        self._lines = lines

    def readlines(self):
        return list(self._lines)

    def __enter__(self):
        return self

    def __exit__(self, *a):
        return False


def h_file() -> bool:
    """
    post: _
    """
    return file_body(CASE)


def file_body(CASE):
    # (contract-free: also called from C13's h_dumpfile)
    if CASE == "empty":
        with patched(dump, open=lambda p, *a, **k: _F([])):
            out = dump.parse_dump_file("/dump.txt", "/hdr.h", "/strings")
        return verdict(out == [], obs={"out": out})
    f, L = int(CASE[1]), int(CASE.split(":")[1][1:])
    upper, cut = CASE.split(":")[2] == "u1", CASE.split(":")[3] == "c1"
    base = (I8 * 2 + H(b"POWR", 20) + H(b"FANS", 12) + bytes((i * 11 + 3) % 256 for i in range(200)))[:L]
    p = L - 1
    w = sym_bytes("w", 1)
    data = mkbytes(base[:p], w)
    text = [ln + "\n" for ln in _render(dump.HEX_DUMP_LINE_FORMATS[f], data, upper, cut)]
    if CASE.endswith(":nonl"):
        text[-1] = text[-1][:-1]            # the file does not end with a newline
    if CASE.endswith(":pre"):
        # comment / blank lines before the data (they are not data lines in either format)
        text = (["\n", "# drawer dump, no address column here\n"] if f == 0 else ["# taken at 12:30: drawer 7, J\u00fcrgen, 25 \u00b0C\n", "\n"]) + text
    try:
        rec_raw, lines_raw = run(data)
        rec, lines = [], None
        def _open_enc(p_, *a, **k):
            # the file is UTF-8 text on disk: an explicit codec asked for by the code is applied to its bytes
            if k.get("encoding"):
                return _F([ln.encode("utf-8").decode(k["encoding"]) if not is_sym(ln) and ln.startswith("#") else ln for ln in text])
            return _F(text)
        with patched(dump, open=_open_enc,
                     parse_ilog_data=lambda d, f_: rec.append(("ilog", d, f_)) or ["<ilog %d>" % len(d)],
                     parse_trace_data=lambda d, f_: rec.append(("trace", d, f_)) or ["<trace %d>" % len(d)]):
            lines = dump.parse_dump_file("/dump.txt", "/hdr.h", "/strings")
    except Exception as e:
        return verdict(False, obs={"exception": repr(e)})
    conds = [len(rec) == len(rec_raw), lines == lines_raw]
    if len(rec) == len(rec_raw):
        for (k1, d1, f1), (k2, d2, f2) in zip(rec, rec_raw):
            conds += [k1 == k2, f1 == f2, len(d1) == len(d2)]
            if len(d1) == len(d2):
                conds.append(bytes_eq(d1, d2))
    total = sum(len(d) for k, d, f_ in rec)
    conds.append(total == L)
    return verdict(sym_all(conds), obs={"regions": [(k, len(d)) for k, d, f_ in rec], "raw": [(k, len(d)) for k, d, f_ in rec_raw]})
