"""C06 - the printed JSON parses back to exactly the decoded document.

prettyPrint() works line by line on json.dumps(doc, indent=4).  The harness emits exactly that
line grammar for small documents whose keys and string values are symbolic over an adversarial
alphabet, runs the real prettyPrint on the (symbolic) text and asserts, line by line,

    out == line[:p] + " " * n + line[p:]      p = just after the key's closing '":', n >= 0
    out == line                               for lines that do not start with a key

White space between ':' and a value is insignificant in JSON, so this implies
json.loads(out) == doc; in replay (concrete) mode the harness additionally checks that
implication and its own serializer against the real json module.
"""
import json

from vlib.api import *
from vlib import pelbuild as pb
from vlib.stubs import FakeJson, World, Namespace, ARG_DEFAULTS, run_main, patched
from pel.datastream import DataStream
from pel.peltool import peltool
from pel.peltool.config import Config

FUNCTIONS = ["pel.peltool.peltool.prettyPrint"]

OTHER = '{:, a[]}'          # class 'o': one JSON text character each; '{' matters to prettyPrint
CLASSES = {"q": '"', "b": "\\", "e": "é", "u": "\u2028", "o": OTHER}


def _capture_dumps_kwargs():
    """the keyword arguments the tool really passes to json.dumps for a document (parsePEL) and for a
    list (listOption): the harness serializer follows them, so that a change of those arguments and the
    alignment pass are checked *together* (they only have to be right in combination)"""
    kws = {}
    fj = FakeJson()
    pel = pb.PEL(pb.UD(b'{"a": 1}\0\0\0\0', sub=1))
    cfg = Config()
    cfg.every_pel = True
    with patched(peltool, json=fj, prettyPrint=lambda t, *a, **k: t):
        peltool.parsePEL(DataStream(pel, byte_order="big", is_signed=False), cfg, False)
    kws[34] = dict(fj.dumped[-1].kw)
    w = World(files=[("a", pel)])
    fj2 = FakeJson()
    run_main(peltool, w, Namespace(**dict(ARG_DEFAULTS, path="/pels", list=True, every_pel=True)), fj=fj2)
    kws[29] = dict(fj2.dumped[-1].kw) if fj2.dumped else {"indent": 4}
    return kws


DUMPS_KW = _capture_dumps_kwargs()
SHAPES = ["flat", "list", "nested", "empty", "lod"]
KEYPATS = ["q", "b", "e", "o", "u", "qq", "qb", "qo", "bq", "bb", "bo", "oq", "ob", "oo", "eq", "qe", "oe", "uo", "qu",
           "qoq", "oqo", "obq"]
# 'W' = a concrete 24-character run: with it the key token ends around the alignment column (before, at, after it)
WIDE = ["flat:Wqo:34", "flat:Wq:34", "flat:Wbo:29", "nested:Wqo:34", "nested:Wo:29", "lod:Wqq:34", "list:WWo:34", "empty:Wob:29"]
CASES = ["%s:%s:%d" % (sh, kp, sp) for sh in SHAPES for kp in KEYPATS for sp in (34, 29)] + WIDE
QUICK = ["flat:u:34", "list:uo:29", "flat:qo:34", "flat:b:34", "flat:oq:29", "nested:qo:34", "list:bq:34", "lod:ob:29", "flat:e:34", "empty:qq:29",
         "flat:oqo:34", "list:oo:29", "flat:Wqo:34", "nested:Wo:29", "lod:Wqq:34"]
HARNESSES = [{"fn": "h_lines", "cases": CASES, "quick_cases": QUICK, "timeout": {"quick": 90, "thorough": 300}},
             {"fn": "h_framing", "cases": ["fwd", "rev"], "timeout": {"quick": 90, "thorough": 300}},
             {"fn": "h_written", "cases": ["fresh", "existing", "twice"], "timeout": {"quick": 90, "thorough": 300}}]
FUNCTIONS += ["peltool.parseAndWriteOutput (the file written by -j)", "peltool.extractAllPELsData (JSON array framing)", "json.dumps keyword arguments at peltool.py call sites"]
BOUNDS = {"keys": "length 1..3 (or 24 / 48 concrete characters + 1..2 symbolic ones, so that the key ends before, at or after the alignment column) with a concrete class pattern per case (quote / backslash / non-ASCII e-acute / one of "
                  "'{:, a[]}' symbolic)", "string values": "length 0..2, every character symbolic over the full alphabet "
                  "{\" \\ e-acute { : , space a [ ] }}", "shapes": "{k: v}, {k: [s, s]}, {k: {k2: v}}, {k: []}, [{k: v}]",
          "desiredSpace": "34 and 29 (the two values the tool uses)"}
ASSUMPTIONS = ["the harness serializer emits json.dumps(indent=4)'s line grammar (checked against the real json module in "
               "every concrete replay)", "insertion of blanks after a key's ':' does not change the parsed document "
               "(checked with json.loads in every concrete replay)"]
OUTSIDE = ["strings longer than 3 characters", "nesting deeper than 2", "numbers / booleans as values (no quotes: not "
           "affected by the alignment scan)"]


class HarnessBug(Exception):
    pass


def esc(cps, ascii_only=True):
    """JSON string token (with quotes) for the code points: forks on the escape class of symbolic chars"""
    out = [34]
    for c in cps:
        if c == 34:
            out += [92, 34]
        elif c == 92:
            out += [92, 92]
        elif c == 0xE9 and ascii_only:
            out += [ord(x) for x in "\\u00e9"]
        elif c == 0x2028 and ascii_only:
            out += [ord(x) for x in "\\u2028"]
        else:
            out.append(c)
    out.append(34)
    return out


def sym_chars(name, n, alphabet):
    s = sym_str(name, n, alphabet)
    return [ord(s[i]) for i in range(n)], s


def h_lines() -> bool:
    """
    post: _
    """
    shape, kp, sp = CASE.split(":")
    sp = int(sp)
    kw = DUMPS_KW[sp]
    if set(kw) - {"indent", "ensure_ascii"} or kw.get("indent") != 4:
        raise HarnessBug("json.dumps is called with arguments this harness does not model: %r" % (kw,))
    ascii_only = bool(kw.get("ensure_ascii", True))
    full = '"\\\u2028' + OTHER
    kcps, kparts = [], []
    for i, cl in enumerate(kp):
        if cl == "W":
            kcps += [ord("w")] * 24
            continue
        cps, s = sym_chars("k%d" % i, 1, CLASSES[cl])
        kcps += cps
        kparts.append(s)
    lv = sym_int("lv", 0, 2)
    v_all, vs = sym_chars("v", 2, full)
    vcps = None
    for cand in range(3):
        if lv == cand:
            vcps = v_all[:cand]
    k2cps, k2s = sym_chars("second", 1, '"\\a')
    I = [32] * 4
    ktok, vtok, k2tok = esc(kcps, ascii_only), esc(vcps, ascii_only), esc(k2cps, ascii_only)
    # (line code points, p) ; p = index just after the key's '":' or None
    if shape == "flat":
        lines = [([123], None), (I + ktok + [58, 32] + vtok + [44], 4 + len(ktok) + 1),
                 (I + k2tok + [58, 32, 49], 4 + len(k2tok) + 1), ([125], None)]
    elif shape == "list":
        lines = [([123], None), (I + ktok + [58, 32, 91], 4 + len(ktok) + 1), (I + I + vtok + [44], None),
                 (I + I + k2tok, None), (I + [93], None), ([125], None)]
    elif shape == "nested":
        lines = [([123], None), (I + ktok + [58, 32, 123], 4 + len(ktok) + 1),
                 (I + I + k2tok + [58, 32] + vtok, 8 + len(k2tok) + 1), (I + [125], None), ([125], None)]
    elif shape == "empty":
        lines = [([123], None), (I + ktok + [58, 32, 91, 93, 44], 4 + len(ktok) + 1),
                 (I + k2tok + [58, 32, 123, 125], 4 + len(k2tok) + 1), ([125], None)]
    else:  # list of dicts
        lines = [([91], None), (I + [123], None), (I + I + ktok + [58, 32] + vtok, 8 + len(ktok) + 1), (I + [125], None),
                 ([93], None)]
    text_cps = []
    for i, (l, _) in enumerate(lines):
        if i:
            text_cps.append(10)
        text_cps += l
    text = mkstr(text_cps)
    try:
        out = peltool.prettyPrint(text, sp)
    except Exception as e:
        return verdict(False, obs={"exception": repr(e)})
    olines = out.split("\n")
    conds = [len(olines) == len(lines)]
    if len(olines) == len(lines):
        for (l, p), o in zip(lines, olines):
            if p is None:
                conds.append(str_is(o, l))
            else:
                extra = len(o) - len(l)
                ok = extra >= 0
                if ok:
                    ok = sym_all([str_is(o[:p], l[:p]), str_is(o[p:p + extra], [32] * extra), str_is(o[p + extra:], l[p:])])
                conds.append(ok)
    if not SYMBOLIC:
        # concrete mode: the harness's own assumptions, checked against the real json module
        K, V, K2 = "".join(map(chr, kcps)), "".join(map(chr, vcps)), "".join(map(chr, k2cps))
        doc = {"flat": {K: V, K2: 1}, "list": {K: [V, K2]}, "nested": {K: {K2: V}}, "empty": {K: [], K2: {}},
               "lod": [{K: V}]}[shape]
        if shape in ("flat", "empty") and K == K2:
            doc = None      # duplicate key: the text has two members, a dict one - not comparable
        if doc is not None:
            real = json.dumps(doc, **kw)
            if real != text:
                raise HarnessBug("serializer mismatch: %r vs %r" % (real, text))
            try:
                back = json.loads(out)
            except Exception:
                back = "<<unparsable>>"
            structural = all(bool(c) for c in conds)
            if structural and back != doc:
                raise HarnessBug("structural oracle passed but json.loads differs")
            conds.append(back == doc)
    return verdict(sym_all(conds), obs={"text": text, "out": out})


def h_framing() -> bool:
    """
    post: _
    """
    # --all-pels prints one JSON array whatever subset of the files is selected
    flags = [sym_int("f%d" % i, 0, 1) for i in range(3)]          # 1 = hidden (filtered by the default selection)
    files = []
    for i, fl in enumerate(flags):
        uhflags = sym_ite(fl == 1, 0x6800, 0xA800)
        files.append(("pel%d" % i, pb.PEL(pb.UD(b"\x01\x02", comp=0x4321), ph=dict(eid=0x50000001 + i), uh=dict(flags=uhflags))))
    w = World(files=files)
    ns = Namespace(**dict(ARG_DEFAULTS, path="/pels", all=True, reverse=(CASE == "rev")))
    try:
        status = run_main(peltool, w, ns)
    except Exception as e:
        return verdict(False, obs={"exception": repr(e)})
    out = w.stdout()
    ends = [e[2] for e in w.events if e[0] == "stdout"]
    # expected token stream: "[" (doc ("," doc)*)? [""] "]"
    docs = [o for o in out if hasattr(o, "obj")]
    exp = ["["]
    for i, d in enumerate(docs):
        if i:
            exp.append(",")
        exp.append(d)
    if docs:
        exp.append(())          # the bare print() after the last document
    exp.append("]")
    nsel = sum(1 for fl in flags if fl == 0)
    conds = [status == 0, len(out) == len(exp), len(docs) == nsel, w.stderr() == []]
    if len(out) == len(exp):
        for o, e in zip(out, exp):
            conds.append(o is e if hasattr(e, "obj") else o == e)
    return verdict(sym_all(conds), obs={"stdout": [o if not hasattr(o, "obj") else "<doc>" for o in out]})


def h_written() -> bool:
    """
    post: _
    """
    # -j: the file written for a PEL holds exactly the document - also when a file of that name already exists (an
    # earlier run, possibly with a longer text) or the same directory is converted twice
    hidden = sym_int("hidden", 0, 1)
    eid = sym_int("eid", 0x50000000, 0x5000000F)
    pel = pb.PEL(pb.UD(b"\x01\x02", comp=0x4321), ph=dict(eid=eid), uh=dict(flags=sym_ite(hidden == 1, 0x6800, 0xA800)))
    outp = None
    for cand in range(16):
        if eid == 0x50000000 + cand:
            outp = "/out/a.pel.%08X.json" % (0x50000000 + cand)
    w = World(files=[("a.pel", pel)], dirs=["/out"])
    if CASE == "existing":
        w.extra[outp] = "{" + " " * 100000 + "}"
    ns = Namespace(**dict(ARG_DEFAULTS, path="/pels", json=True, output_dir="/out"))
    try:
        status = run_main(peltool, w, ns)
        if CASE == "twice":
            del w.events[:]
            status = run_main(peltool, w, ns)
    except Exception as e:
        return verdict(False, obs={"exception": repr(e)})
    ev = w.events
    writes = [e for e in ev if e[0] == "write"]
    conds = [status == 0, not any(e[0] == "stale_tail" for e in ev)]
    if hidden == 1:
        conds.append(writes == [] and not any(e[0] == "open_w" for e in ev))
    else:
        conds += [[e[1] for e in ev if e[0] == "open_w"] == [outp], len(writes) == 1, ("close", outp) in ev]
        if len(writes) == 1:
            conds += [writes[0][1] == outp, hasattr(writes[0][2], "obj")]
    return verdict(sym_all(conds), obs={"events": [e[:2] for e in ev], "status": status})
