"""C06 - the printed JSON parses back to exactly the decoded document.

prettyPrint() works line by line on json.dumps(doc, indent=4).  The harness emits exactly that
line grammar for small documents whose keys and string values are symbolic over an adversarial
alphabet, runs the real prettyPrint on the (symbolic) text and asserts, line by line,

    out == line[:p] + " " * n + line[p:]      p = just after the key's closing '":', n >= 0
    out == line                               for lines that do not start with a key

White space between ':' and a value is insignificant in JSON, so this implies
json.loads(out) == doc; in replay (concrete) mode the harness additionally checks that
implication and its own serializer against the real json module.
"""
import json

from vlib.api import *
from pel.peltool import peltool

FUNCTIONS = ["pel.peltool.peltool.prettyPrint"]

OTHER = '{:, a[]}'          # class 'o': one JSON text character each; '{' matters to prettyPrint
CLASSES = {"q": '"', "b": "\\", "e": "é", "o": OTHER}
SHAPES = ["flat", "list", "nested", "empty", "lod"]
KEYPATS = ["q", "b", "e", "o", "qq", "qb", "qo", "bq", "bb", "bo", "oq", "ob", "oo", "eq", "qe", "oe",
           "qoq", "oqo", "obq"]
CASES = ["%s:%s:%d" % (sh, kp, sp) for sh in SHAPES for kp in KEYPATS for sp in (34, 29)]
QUICK = ["flat:qo:34", "flat:b:34", "flat:oq:29", "nested:qo:34", "list:bq:34", "lod:ob:29", "flat:e:34", "empty:qq:29",
         "flat:oqo:34", "list:oo:29"]
HARNESSES = [{"fn": "h_lines", "cases": CASES, "quick_cases": QUICK, "timeout": {"quick": 90, "thorough": 300}}]
BOUNDS = {"keys": "length 1..3 with a concrete class pattern per case (quote / backslash / non-ASCII e-acute / one of "
                  "'{:, a[]}' symbolic)", "string values": "length 0..2, every character symbolic over the full alphabet "
                  "{\" \\ e-acute { : , space a [ ] }}", "shapes": "{k: v}, {k: [s, s]}, {k: {k2: v}}, {k: []}, [{k: v}]",
          "desiredSpace": "34 and 29 (the two values the tool uses)"}
ASSUMPTIONS = ["the harness serializer emits json.dumps(indent=4)'s line grammar (checked against the real json module in "
               "every concrete replay)", "insertion of blanks after a key's ':' does not change the parsed document "
               "(checked with json.loads in every concrete replay)"]
OUTSIDE = ["strings longer than 3 characters", "nesting deeper than 2", "numbers / booleans as values (no quotes: not "
           "affected by the alignment scan)"]


class HarnessBug(Exception):
    pass


def esc(cps):
    """JSON string token (with quotes) for the code points: forks on the escape class of symbolic chars"""
    out = [34]
    for c in cps:
        if c == 34:
            out += [92, 34]
        elif c == 92:
            out += [92, 92]
        elif c == 0xE9:
            out += [ord(x) for x in "\\u00e9"]
        else:
            out.append(c)
    out.append(34)
    return out


def sym_chars(name, n, alphabet):
    s = sym_str(name, n, alphabet)
    return [ord(s[i]) for i in range(n)], s


def h_lines() -> bool:
    """
    post: _
    """
    shape, kp, sp = CASE.split(":")
    sp = int(sp)
    full = '"\\é' + OTHER
    kcps, kparts = [], []
    for i, cl in enumerate(kp):
        cps, s = sym_chars("k%d" % i, 1, CLASSES[cl])
        kcps += cps
        kparts.append(s)
    lv = sym_int("lv", 0, 2)
    v_all, vs = sym_chars("v", 2, full)
    vcps = None
    for cand in range(3):
        if lv == cand:
            vcps = v_all[:cand]
    k2cps, k2s = sym_chars("k2", 1, full)
    I = [32] * 4
    ktok, vtok, k2tok = esc(kcps), esc(vcps), esc(k2cps)
    # (line code points, p) ; p = index just after the key's '":' or None
    if shape == "flat":
        lines = [([123], None), (I + ktok + [58, 32] + vtok + [44], 4 + len(ktok) + 1),
                 (I + k2tok + [58, 32, 49], 4 + len(k2tok) + 1), ([125], None)]
    elif shape == "list":
        lines = [([123], None), (I + ktok + [58, 32, 91], 4 + len(ktok) + 1), (I + I + vtok + [44], None),
                 (I + I + k2tok, None), (I + [93], None), ([125], None)]
    elif shape == "nested":
        lines = [([123], None), (I + ktok + [58, 32, 123], 4 + len(ktok) + 1),
                 (I + I + k2tok + [58, 32] + vtok, 8 + len(k2tok) + 1), (I + [125], None), ([125], None)]
    elif shape == "empty":
        lines = [([123], None), (I + ktok + [58, 32, 91, 93, 44], 4 + len(ktok) + 1),
                 (I + k2tok + [58, 32, 123, 125], 4 + len(k2tok) + 1), ([125], None)]
    else:  # list of dicts
        lines = [([91], None), (I + [123], None), (I + I + ktok + [58, 32] + vtok, 8 + len(ktok) + 1), (I + [125], None),
                 ([93], None)]
    text_cps = []
    for i, (l, _) in enumerate(lines):
        if i:
            text_cps.append(10)
        text_cps += l
    text = mkstr(text_cps)
    try:
        out = peltool.prettyPrint(text, sp)
    except Exception as e:
        return verdict(False, obs={"exception": repr(e)})
    olines = out.split("\n")
    conds = [len(olines) == len(lines)]
    if len(olines) == len(lines):
        for (l, p), o in zip(lines, olines):
            if p is None:
                conds.append(str_is(o, l))
            else:
                extra = len(o) - len(l)
                ok = extra >= 0
                if ok:
                    ok = sym_all([str_is(o[:p], l[:p]), str_is(o[p:p + extra], [32] * extra), str_is(o[p + extra:], l[p:])])
                conds.append(ok)
    if not SYMBOLIC:
        # concrete mode: the harness's own assumptions, checked against the real json module
        K, V, K2 = "".join(map(chr, kcps)), "".join(map(chr, vcps)), "".join(map(chr, k2cps))
        doc = {"flat": {K: V, K2: 1}, "list": {K: [V, K2]}, "nested": {K: {K2: V}}, "empty": {K: [], K2: {}},
               "lod": [{K: V}]}[shape]
        if shape in ("flat", "empty") and K == K2:
            doc = None      # duplicate key: the text has two members, a dict one - not comparable
        if doc is not None:
            real = json.dumps(doc, indent=4)
            if real != text:
                raise HarnessBug("serializer mismatch: %r vs %r" % (real, text))
            try:
                back = json.loads(out)
            except Exception:
                back = "<<unparsable>>"
            structural = all(bool(c) for c in conds)
            if structural and back != doc:
                raise HarnessBug("structural oracle passed but json.loads differs")
            conds.append(back == doc)
    return verdict(sym_all(conds), obs={"text": text, "out": out})
