"""C16 - history logs show a full hex dump and exactly the non-zero fields."""
from vlib.api import *
from vlib.stubs import patched
from pel import hexdump as hd
from io_drawer import hlog
from io_drawer.drawer_type import MEX_DRAWER_TYPE, NIMITZ_DRAWER_TYPE

FUNCTIONS = ["io_drawer.hlog.parse_hlog_data", "io_drawer.hlog.get_hlog_fields", "pel.hexdump.hexdump", "DataStream.check_range/get_int"]

TABLE_A = [(1, "fa_one"), (2, "fa two (x/y)"), (1, "fa-three"), (2, "fa_four"), (2, "L\u00fcfter 5 RPM."), (1, "fa_six")]
TABLE_B = [(2, "fb_one"), (1, "pad"), (1, "pad"), (2, "fb_four"), (1, "pad")]       # identical entries repeat (reserved bytes)


def header_text(table, style=0):
    head = ["// generated", "#define X 1", "static struct mex_hlog_field mex_hlog_fields[MEX_HLOG_FIELD_COUNT] =" if style == 0
            else "struct mex_hlog_field mex_hlog_fields[3] = {"]
    if style == 0:
        head.append("{")
    body = ['  { %d, "%s" }%s' % (s, n, "," if (i + 1 < len(table) or style == 0) else "") for i, (s, n) in enumerate(table)]
    return "\n".join(head + body + ["};", "", "int other[] = { 1, 2 };"]) + "\n"


SHIPPED = {}


def shipped(name):
    if name not in SHIPPED:
        path = (MEX_DRAWER_TYPE if name == "mex" else NIMITZ_DRAWER_TYPE).get_header_file_path()
        SHIPPED[name] = (path, [(f.size, f.name) for f in hlog.get_hlog_fields(path)])
    return SHIPPED[name]


CASES = ["A:w%d" % w for w in (0, 2, 4, 6)] + ["A:len", "B:w0", "B:len", "mex:w0", "mex:w17", "mex:len", "nimitz:w30", "mex:long",
         "A:tail", "mex:tail", "A:z0", "A:z3", "B:z0", "mex:z16"]
HARNESSES = [
    {"fn": "h_fields", "cases": CASES, "quick_cases": ["A:w2", "A:len", "mex:len", "mex:w17", "mex:long", "B:len", "A:tail", "A:z0", "mex:z16"], "timeout": {"quick": 120, "thorough": 400}},
    {"fn": "h_two_tables", "cases": ["AB", "BA"], "timeout": {"quick": 90, "thorough": 300}},
]
BOUNDS = {"tables": "two synthetic field tables (sizes 1,2,1,2,2,1 with a non-ASCII name, and 2,1,1,2,1 with a repeated entry; both accepted header layouts) and both shipped tables",
          "data": "a window of 3 symbolic bytes at a catalogue offset with the length fixed at the full record + 2, or the length "
                  "symbolic from 0 to full + 2 with concrete non-zero bytes; one 70-byte record; the window surrounded by zeros only; "
                  "field names with blanks and punctuation in the synthetic table",
          "history": "the same header path serving a different table on the next call"}
ASSUMPTIONS = ["open() of the header file replaced by an in-memory file for the synthetic tables (E5)"]
OUTSIDE = ["arbitrary header-file grammars", "more than 3 symbolic data bytes at once"]


def _open(text):
    """open() stand-in: the header file is UTF-8 on disk; encoding / errors arguments are honoured"""
    def fake(p, mode="r", *a, **k):
        raw = text.encode("utf-8")
        return _F(raw.decode(k.get("encoding") or "utf-8", k.get("errors") or "strict"))
    return fake


class _F:
    def __init__(self, text):
        self.lines = text.splitlines(True)

    def __iter__(self):
        return iter(self.lines)

    def __enter__(self):
        return self

    def __exit__(self, *a):
        return False


def oracle(table, data_cps, L):
    """expected lines after the hex dump: non-zero fields, contiguous from offset 0, stop at the first that does not fit"""
    out, off = [], 0
    for size, name in table:
        if off + size > L:
            break
        val = data_cps[off] if size == 1 else from_be([data_cps[off], data_cps[off + 1]])
        nz = data_cps[off] != 0 if size == 1 else sym_any([data_cps[off] != 0, data_cps[off + 1] != 0])
        if nz:
            out.append((name, size, val))
        off += size
    return out


def run(table_name, data):
    if table_name in ("A", "B"):
        text = header_text(TABLE_A if table_name == "A" else TABLE_B, 0 if table_name == "A" else 1)
        with patched(hlog, open=_open(text)):
            return hlog.parse_hlog_data(data, "/fixtures/%s.h" % table_name)
    return hlog.parse_hlog_data(data, shipped(table_name)[0])


def check(lines, table, data, cps, L):
    ndump = (L + 15) // 16
    conds = [len(lines) >= 5 + ndump, lines[0] == "Hex Dump", lines[1] == "--------"]
    if len(lines) < 5 + ndump:
        return conds
    # the dump section is the loss-less default-format dump of ALL the bytes (C13: parse(hexdump(d)) == d)
    ref = hd.hexdump(data)
    conds += [len(ref) == ndump, doc_eq(list(lines[2:2 + ndump]), list(ref)), lines[2 + ndump] == "",
              lines[3 + ndump] == "Non-Zero Field Values", lines[4 + ndump] == "---------------------"]
    exp = oracle(table, cps, L)
    got = lines[5 + ndump:]
    conds.append(len(got) == len(exp))
    if len(got) == len(exp):
        for g, (name, size, val) in zip(got, exp):
            pre = name + ": 0x"
            conds.append(g[:len(pre)] == pre)
            conds.append(len(g) == len(pre) + 2 * size)
            conds.append(numval_eq(g[len(pre):], val, 16))
    return conds


def h_fields() -> bool:
    """
    post: _
    """
    tname, what = CASE.split(":")
    table = {"A": TABLE_A, "B": TABLE_B}.get(tname) or shipped(tname)[1]
    full = sum(s for s, _ in table)
    fill = bytes([(i * 7 + 1) % 256 if i % 3 else 0 for i in range(full + 30)])
    if what == "len":
        L = None
        Ls = sym_int("L", 0, full + 2)
        for cand in range(full + 3):
            if Ls == cand:
                L = cand
        data = fill[:L]
        cps = list(data)
    elif what == "tail":
        # bytes past the full record (symbolic, zero included) are still part of the dump
        L = full + 3
        w = sym_bytes("w", 3)
        data = mkbytes(fill[:full], w)
        cps = list(fill[:full]) + [w[0], w[1], w[2]]
    elif what[0] == "z":
        # every byte outside the 3-byte symbolic window is zero (a value 0xNN00 followed by nothing but zeros)
        L, p = full + 2, int(what[1:])
        w = sym_bytes("w", 3)
        data = mkbytes(bytes(p), w, bytes(L - p - 3))
        cps = [0] * p + [w[0], w[1], w[2]] + [0] * (L - p - 3)
    else:
        L = 70 if what == "long" else full + 2
        p = 64 if what == "long" else int(what[1:])
        w = sym_bytes("w", 3)
        data = mkbytes(fill[:p], w, fill[p + 3:L])
        cps = list(fill[:p]) + [w[0], w[1], w[2]] + list(fill[p + 3:L])
    try:
        lines = run(tname, memoryview(data) if not is_sym(data) else data)
    except Exception as e:
        return verdict(False, obs={"exception": repr(e)})
    return verdict(sym_all(check(lines, table, data, cps, L)), obs={"lines": lines})


def h_two_tables() -> bool:
    """
    post: _
    """
    # the header file named by the same path may differ between two decodes in one process
    first, second = (TABLE_A, TABLE_B) if CASE == "AB" else (TABLE_B, TABLE_A)
    w = sym_bytes("w", 3)
    data = mkbytes(w, b"\x00\x05\x00\x00\x09\x01\x02")
    cps = [w[0], w[1], w[2]] + list(b"\x00\x05\x00\x00\x09\x01\x02")
    texts = [header_text(first, 0), header_text(second, 1)]
    n = [0]

    def fake_open(p, *a, **k):
        t = texts[min(n[0], 1)]
        n[0] += 1
        return _open(t)(p, *a, **k)
    try:
        with patched(hlog, open=fake_open):
            l1 = hlog.parse_hlog_data(data, "/fixtures/same_path.h")
            l2 = hlog.parse_hlog_data(data, "/fixtures/same_path.h")
    except Exception as e:
        return verdict(False, obs={"exception": repr(e)})
    conds = check(l1, first, data, cps, 10) + check(l2, second, data, cps, 10)
    return verdict(sym_all(conds), obs={"first": l1, "second": l2})
