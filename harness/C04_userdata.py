"""C04 - user data is rendered from its content or preserved byte-for-byte as a hex dump."""
import json as realjson
from collections import OrderedDict

from vlib.api import *
from vlib import pelbuild as pb
from vlib.stubs import FakeJson, FakeImporter, SymDict, patched
from pel import hexdump as hd
from pel.datastream import DataStream
from pel.peltool import peltool, user_data, ext_user_data, parse_user_data, default as defmod
from pel.peltool.config import Config

FUNCTIONS = ["UserData/ExtUserData.__init__/toJSON", "ParseUserData.parse/parseCustom/getBuiltinFormatJSON",
             "Default.toJSON", "pel.hexdump.hexdump", "pel.hexdump.parse (recovery function)", "peltool.sectionFun"]

BEHAVIOURS = {"absent": None, "dict": 0, "list": 1, "none": 2, "empty": 3, "raises": 4, "raises-noargs": 5,
              "null": 8, "string": 9, "import-fails": 0}
DISPATCH = ["%s:%s" % (sec, b) for sec in ("UD", "ED") for b in BEHAVIOURS] + ["UD:disabled", "ED:disabled", "XX:other"]
SECOND = ["UD:absent", "ED:absent", "UD:dict", "UD:raises", "ED:none"]
BIG = ["%s:L%d" % (s, L) for s in ("UD", "ED", "XX") for L in (32759, 32760, 40001, 65527)]
TEXT = ["t4", "w:0", "w:3", "w:7", "lead", "trail"]
JSONS = ['{"a": 1}', '[1, "two", null]', '"just text"', "0", "false", "null", '{"k": {"n": [1, 2]}}', '""', "[]", "12.5",
         '{"temp": "45 \u00b0C", "name": "gr\u00fc\u00df"}'.encode().decode("unicode_escape")]
LOSSLESS = ["%s:L%d:p%d" % (s, L, p) for s in ("UD", "ED", "XX", "CBOR", "BMC9") for (L, p) in ((1, 0), (5, 3), (16, 14), (17, 15), (20, 18))]

HARNESSES = [
    {"fn": "h_dispatch", "cases": DISPATCH, "quick_cases": ["UD:absent", "UD:raises-noargs", "ED:none", "UD:dict", "ED:list",
                                                           "UD:disabled", "XX:other", "UD:empty", "UD:import-fails"],
     "timeout": {"quick": 90, "thorough": 300}},
    {"fn": "h_second", "cases": SECOND, "quick_cases": ["UD:absent", "UD:raises"], "timeout": {"quick": 90, "thorough": 300}},
    {"fn": "h_big", "cases": BIG, "quick_cases": ["XX:L32760", "UD:L65527"], "timeout": {"quick": 120, "thorough": 400}},
    {"fn": "h_text", "cases": TEXT, "quick_cases": ["w:3", "lead"], "timeout": {"quick": 120, "thorough": 600}},
    {"fn": "h_json", "cases": ["j%d" % i for i in range(len(JSONS))], "quick_cases": ["j0", "j3", "j5", "j7", "j10"],
     "timeout": {"quick": 90, "thorough": 300}},
    {"fn": "h_final_text", "cases": ["key", "value", "textline"], "timeout": {"quick": 120, "thorough": 400}},
    {"fn": "h_lossless", "cases": LOSSLESS, "quick_cases": ["UD:L17:p15", "XX:L5:p3", "CBOR:L16:p14", "ED:L1:p0"],
     "timeout": {"quick": 120, "thorough": 400}},
]
BOUNDS = {"dispatch": "creator byte symbolic over ASCII letters, component id (16 bit), sub-type, version symbolic; plugin "
                      "behaviour per case (absent, returns object / list / string / null / None / '', raises with and "
                      "without arguments); plugins disabled; unrecognised section id symbolic; payload 5 concrete bytes",
          "text": "built-in text format: 4 fully symbolic ASCII bytes; 3-byte symbolic windows inside / at the start / at the "
                  "end of a 10-byte text", "json": "10 catalogue JSON texts with symbolic amounts (0..2) of leading / trailing "
                  "white space and trailing NULs", "lossless": "payload lengths 1, 5, 16, 17, 20 with a 2-byte symbolic window; "
                  "UD / ED without parser, unrecognised section, CBOR and unknown BMC sub-types"}
ASSUMPTIONS = ["importlib.import_module replaced by a recorder returning a fixture module (E3); import caches replaced by "
               "association lists (SymDict)", "json replaced by the token (M7) in user_data / ext_user_data / parse_user_data",
               "text payloads are ASCII (0x00..0x7F)"]
OUTSIDE = ["payloads longer than 20 bytes", "CBOR decoding", "symbolic JSON text (catalogue instead)", "non-ASCII text payloads"]


def decode(data, creator="O", plugins=True):
    s = DataStream(data, byte_order="big", is_signed=False)
    out = OrderedDict()
    sid, slen, ver, sub, comp = peltool.parseHeader(s)
    cfg = Config()
    cfg.allow_plugins = plugins
    peltool.sectionFun(s, out, sid, slen, ver, sub, comp, creator, cfg)
    name = list(out.keys())[0]
    return name, out[name], s.index


class env:
    """json token + importlib recorder + association-list caches installed in the user-data modules"""
    def __init__(self, behaviour=0, present=True):
        self.fj = FakeJson()
        self.imp = FakeImporter(self.fj, behaviour=behaviour, present=lambda name: present)
        self.ctx = [patched(user_data, json=self.fj), patched(ext_user_data, json=self.fj),
                    patched(parse_user_data, json=self.fj, importlib=self.imp, userDataParsers=SymDict()),
                    patched(defmod, json=self.fj)]

    def __enter__(self):
        for c in self.ctx:
            c.__enter__()
        return self

    def __exit__(self, *a):
        for c in reversed(self.ctx):
            c.__exit__(*a)
        return False


PAYLOAD = b"\x00\x41\x7f\xfe\x22"


def letter(name):
    x = sym_int(name, 0, 51)
    return sym_ite(x < 26, 65 + x, 97 + (x - 26))


def h_dispatch() -> bool:
    """
    post: _
    """
    sec, beh = CASE.split(":")
    comp = sym_int("comp", 0, 0xFFFF)
    sub, ver = sym_int("sub", 0, 255), sym_int("ver", 0, 255)
    cr = letter("creator")
    plugins = beh != "disabled"
    present = beh not in ("absent", "disabled", "other")
    b = BEHAVIOURS.get(beh) if present else 0
    # the built-in formats belong to creator 'O' / component 0x2000: the plugin path is everything else
    assume(sym_not(sym_all([cr == ord("O"), comp == 0x2000])))
    creator = "O"
    if sec == "UD":
        creator = chr(cr)
        data = pb.flat(pb.UD(PAYLOAD, ver=ver, sub=sub, comp=comp))
    elif sec == "ED":
        data = pb.flat(pb.ED(PAYLOAD, creator=cr, ver=ver, sub=sub, comp=comp))
    else:
        sid = sym_bytes("sid", 2)
        v = sid[0] * 256 + sid[1]
        for d in ("PH", "UH", "PS", "SS", "EH", "MT", "LP", "UD", "ED"):
            assume(v != int.from_bytes(d.encode(), "big"))
        data = pb.flat(pb.OTHER(sid, PAYLOAD, ver=ver, sub=sub, comp=comp))
    data = mkbytes(data, b"\xEE\xEE")
    try:
        with env(b if b is not None else 0, present) as e:
            if beh == "import-fails":
                # the module exists but raises (not an ImportError) while being imported
                e.imp.import_raises = RuntimeError("broken parser module")
            name, out, used = decode(data, creator, plugins)
    except Exception as ex:
        return verdict(False, obs={"exception": repr(ex)})
    dump = hd.hexdump(memoryview(PAYLOAD))
    conds = [used == len(data) - 2, out["Section Version"] == ver, out["Sub-section type"] == sub]
    if sec in ("UD", "ED"):
        conds.append(name == ("User Data" if sec == "UD" else "Extended User Data"))
    extra = [k for k in out.keys() if k not in ("Section Version", "Sub-section type", "Created by")]
    calls = e.imp.calls
    if sec == "XX" or beh in ("absent", "disabled"):
        conds += [extra == ["Data"], out.get("Data") == dump, calls == []]
        if beh == "disabled":
            conds.append(e.imp.requested == [])
    elif beh == "dict":
        conds += [extra == ["Plugin", "Kind"], len(calls) == 1]
    elif beh in ("list", "string", "null"):
        conds += [extra == ["Data"], len(calls) == 1,
                  out.get("Data") == {"list": ["plugin", "list"], "string": "just a string", "null": None}[beh]]
    elif beh == "import-fails":
        conds += [extra == ["Error", "Data"], out.get("Data") == dump, calls == []]
    elif beh == "none":
        conds += [extra == ["Error", "Data"], out.get("Data") == dump, len(calls) == 1]
    elif beh == "empty":
        # a parser that returns nothing usable: the payload must still be recoverable
        conds += ["Data" in out, hd.parse(out["Data"]) == PAYLOAD if isinstance(out.get("Data"), list) else False,
                  "Error" in out]
    else:   # raises
        conds += [extra == ["Error", "Data"], out.get("Data") == dump, len(calls) == 1]
    if calls:
        c = calls[0]
        conds += [c.kind == "UD", c.args[0] == sub, c.args[1] == ver, bytes(c.args[2]) == PAYLOAD]
    return verdict(sym_all(conds), obs={"out": out, "requested": e.imp.requested})


def _text_oracle(cps):
    """expected lines for the built-in text format (outer white space / NULs are padding)"""
    ws = (32, 9, 10, 11, 12, 13, 28, 29, 30, 31)
    lo, hi = 0, len(cps)
    while lo < hi and sym_any([cps[lo] == w for w in ws]):
        lo += 1
    while hi > lo and sym_any([cps[hi - 1] == w for w in ws]):
        hi -= 1
    while hi > lo and cps[hi - 1] == 0:
        hi -= 1
    lines, cur = [], []
    for c in cps[lo:hi]:
        if c == 10:
            lines.append(cur)
            cur = []
        else:
            cur.append(sym_ite(sym_any([c < 32, c > 126]), 46, c))
    if cur:
        lines.append(cur)
    return lines


def h_text() -> bool:
    """
    post: _
    """
    if CASE == "t4":
        w = sym_bytes("w", 4, 0, 0x7F)
        payload = w
        cps = [w[i] for i in range(4)]
    else:
        base = b"ab\ncd e\nfg"
        w = sym_bytes("w", 3, 0, 0x7F)
        if CASE == "lead":
            p = 0
        elif CASE == "trail":
            p = 7
        else:
            p = int(CASE.split(":")[1])
            p = min(p, 7)
        payload = mkbytes(base[:p], w, base[p + 3:])
        cps = list(base[:p]) + [w[0], w[1], w[2]] + list(base[p + 3:])
    data = mkbytes(pb.flat(pb.UD(payload, sub=3, comp=0x2000)), b"\xEE\xEE")
    try:
        with env() as e:
            name, out, used = decode(data, "O")
    except Exception as ex:
        return verdict(False, obs={"exception": repr(ex)})
    exp = _text_oracle(cps)
    got = out.get("Data")
    conds = [used == len(data) - 2, isinstance(got, list) and len(got) == len(exp)]
    if isinstance(got, list) and len(got) == len(exp):
        for g, x in zip(got, exp):
            conds.append(str_is(g, x))
    return verdict(sym_all(conds), obs={"out": out})


def h_json() -> bool:
    """
    post: _
    """
    J = JSONS[int(CASE[1:])]
    a, b, z = sym_int("lead", 0, 2), sym_int("trail", 0, 2), sym_int("nul", 0, 2)
    payload = None
    for i in range(3):
        for j in range(3):
            for k in range(3):
                if sym_all([a == i, b == j, z == k]):
                    payload = b" \n"[:i] + J.encode() + b"\n "[:j] + b"\0" * k
    data = pb.flat(pb.UD(payload, sub=1, comp=0x2000)) + b"\xEE\xEE"
    try:
        with env() as e:
            name, out, used = decode(data, "O")
    except Exception as ex:
        return verdict(False, obs={"exception": repr(ex)})
    val = realjson.loads(J)
    conds = [used == len(data) - 2]
    base = ["Section Version", "Sub-section type", "Created by"]
    if isinstance(val, dict):
        conds += [list(out.keys()) == base + list(val.keys())] + [out.get(k) == v for k, v in val.items()]
    else:
        conds += [list(out.keys()) == base + ["Data"], "Data" in out and out["Data"] == val
                  and type(out["Data"]) is type(val)]
    return verdict(sym_all(conds), obs={"out": out})


def h_final_text() -> bool:
    """
    post: _
    """
    # end to end through the real json module and the real column alignment: the built-in JSON value / text line is
    # still there, as encoded, in the text the tool finally emits (two characters symbolic over quote, colon,
    # backslash and a letter, resolved by solver-decided forks before the json C boundary)
    alph = '":' + chr(92) + "a"
    c = sym_str("c", 2, alph)
    mid = None
    for a1 in alph:                      # one solver-resolved fork per pair; the text is concrete afterwards
        for a2 in alph:
            if mid is None and sym_all([ord(c[0]) == ord(a1), ord(c[1]) == ord(a2)]):
                mid = a1 + a2
    if CASE == "key":
        val = {"disk 3.5" + mid + "slot": "ok", "plain": 1}
        sect = pb.UD(realjson.dumps(val).encode(), sub=1, comp=0x2000)
    elif CASE == "value":
        val = {"where": "bay 2" + mid + "rear", "list": ["x" + mid + "y", "z"]}
        sect = pb.UD(realjson.dumps(val).encode(), sub=1, comp=0x2000)
    else:
        val = ["width 19" + mid + "ok", "second line"]
        sect = pb.UD(("\n".join(val)).encode(), sub=3, comp=0x2000)
    pel = pb.PEL(sect)
    cfg = Config()
    cfg.allow_plugins = False
    try:
        eid, text = peltool.parsePEL(DataStream(pel, byte_order="big", is_signed=False), cfg, False)
        doc = realjson.loads(text)
    except Exception as ex:
        return verdict(False, obs={"exception": repr(ex)})
    ud = doc.get("User Data 0") or doc.get("User Data") or {}
    if CASE == "textline":
        conds = [ud.get("Data") == val]
    else:
        conds = [ud.get(k) == v for k, v in val.items()]
    return verdict(sym_all(conds), obs={"ud": ud})


def h_lossless() -> bool:
    """
    post: _
    """
    sec, L, p = CASE.split(":")
    L, p = int(L[1:]), int(p[1:])
    fill = bytes((53 * i + 7) % 256 for i in range(L))
    wn = min(2, L - p)
    w = sym_bytes("w", wn)
    payload = mkbytes(fill[:p], w, fill[p + wn:])
    creator = "B"
    if sec == "UD":
        sect = pb.UD(payload, comp=0x0777)
    elif sec == "ED":
        sect = pb.ED(payload, creator=ord("B"), comp=0x0777)
    elif sec == "XX":
        sect = pb.OTHER("ZZ", payload)
    elif sec == "CBOR":
        creator, sect = "O", pb.UD(payload, sub=2, comp=0x2000)
    else:
        creator, sect = "O", pb.UD(payload, sub=9, comp=0x2000)
    tail = b"\xEE\xEE" if bool(sym_bool("followed")) else b""      # the section may be the last thing in the file
    data = mkbytes(pb.flat(sect), tail)
    try:
        with env(present=False) as e:
            name, out, used = decode(data, creator)
            back = hd.parse(out["Data"])
    except Exception as ex:
        return verdict(False, obs={"exception": repr(ex)})
    conds = [used == len(data) - len(tail), len(back) == L, bytes_eq(back, payload) if len(back) == L else False]
    return verdict(sym_all(conds), obs={"data_lines": out.get("Data")})


def h_second() -> bool:
    """
    post: _
    """
    # the same creator / component twice in one process: the second section is treated like the first
    sec, beh = CASE.split(":")
    comp = sym_int("comp", 0, 0xFFFF)
    cr = letter("creator")
    assume(sym_not(sym_all([cr == ord("O"), comp == 0x2000])))
    present = beh != "absent"
    b = BEHAVIOURS.get(beh) if present else 0
    p1, p2 = b"\x01\x02\x03", b"\x0a\x0b\x0c\x0d"
    creator = chr(cr) if sec == "UD" else "O"
    mk = (lambda p: pb.flat(pb.UD(p, comp=comp))) if sec == "UD" else (lambda p: pb.flat(pb.ED(p, creator=cr, comp=comp)))
    try:
        with env(b if b is not None else 0, present) as e:
            n1, o1, u1 = decode(mk(p1), creator)
            n2, o2, u2 = decode(mk(p2), creator)
    except Exception as ex:
        return verdict(False, obs={"exception": repr(ex)})
    conds = [list(o1.keys()) == list(o2.keys())]
    for out, payload in ((o1, p1), (o2, p2)):
        if beh == "dict":
            conds.append(out.get("Plugin") is not None)
        else:
            conds.append(isinstance(out.get("Data"), list) and hd.parse(out["Data"]) == payload)
            conds.append(("Error" in out) == (beh in ("raises", "none")))
    if present:
        conds.append(len(e.imp.calls) == 2 and bytes(e.imp.calls[1].args[2]) == p2)
    return verdict(sym_all(conds), obs={"first": o1, "second": o2})


def h_big() -> bool:
    """
    post: _
    """
    # payload lengths up to the 16-bit limit: the section's bytes reach the hex dump complete (hexdump itself is
    # replaced by a recorder here - C13 covers it - so that 65 527 bytes need not be rendered symbolically)
    sec, L = CASE.split(":")
    L = int(L[1:])
    w = sym_bytes("w", 1)
    fill = bytes((i * 29 + 3) % 256 for i in range(L - 1))
    payload = mkbytes(fill, w)
    if sec == "UD":
        sect, creator = pb.UD(payload, comp=0x0777), "B"
    elif sec == "ED":
        L -= 4                     # (the ED section spends 4 of its bytes on creator + reserved)
        payload = mkbytes(fill[:L - 1], w)
        sect, creator = pb.ED(payload, creator=ord("B"), comp=0x0777), "O"
    else:
        sect, creator = pb.OTHER("ZZ", payload), "O"
    data = mkbytes(pb.flat(sect), b"\xEE\xEE")
    seen = []

    def rec(mv, *a, **k):
        seen.append(mv)
        return ["<dump of %d bytes>" % len(mv)]
    try:
        with env(present=False) as e, patched(parse_user_data, hexdump=rec), patched(defmod, hexdump=rec), \
                patched(user_data, hexdump=rec), patched(ext_user_data, hexdump=rec):
            name, out, used = decode(data, creator)
    except Exception as ex:
        return verdict(False, obs={"exception": repr(ex)})
    conds = [used == len(data) - 2, out.get("Data") == ["<dump of %d bytes>" % L], len(seen) == 1]
    if len(seen) == 1:
        got = seen[0]
        conds += [len(got) == L, untraced(bytes, got[:L - 1]) == fill[:L - 1] if not is_sym(got[:L - 1]) else bytes_eq(got[:L - 1], fill[:L - 1]),
                  got[L - 1] == w[0]]
    return verdict(sym_all(conds), obs={"used": used, "data": out.get("Data")})
