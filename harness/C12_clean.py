"""C12 - --clean never deletes a PEL whose decoded output was not completely written.

The real main() runs in an in-memory world (vlib/stubs.py: E1 files, E2 recorders with fault
injection, E4 argparse namespace).  Symbolic: the step at which an output operation fails
(open / write / flush / close / print), the PEL's severity and action flags (so that it may be
filtered out), the selection switches, --clean itself; concrete variants: good, truncated, junk.
Assertion on the recorded event list: a remove event exists only for the input file, only with
--clean, only after the complete, fault-free emission of that file's document.
"""
from vlib.api import *
from vlib import pelbuild as pb
from vlib.stubs import World, Namespace, ARG_DEFAULTS, run_main, FakeJson
from pel.peltool import peltool

FUNCTIONS = ["peltool.main (-f / -j branches)", "peltool.parseAndWriteOutput", "peltool.parseAndPrintPELFile",
             "peltool.parsePEL", "peltool.considerPEL"]
HARNESSES = [
    {"fn": "h_json_clean", "cases": ["good", "good/E", "good/H", "good/s", "trunc", "trunc/E", "cut/E", "junk", "two", "two/E", "good/E:leftover"],
     "quick_cases": ["good", "good/H", "trunc/E", "cut/E", "two/E", "good/E:leftover"], "timeout": {"quick": 180, "thorough": 400}},
    {"fn": "h_long_name", "cases": ["255", "241"], "timeout": {"quick": 90, "thorough": 300}},
    {"fn": "h_file_clean", "cases": ["good", "good/E", "good/H", "good:hex/E", "good:hex", "trunc", "trunc/E", "cut/E", "junk", "good:nostdout/E", "good:hex:nostdout/E"],
     "quick_cases": ["good", "good:hex/E", "good:hex", "trunc/E", "cut/E", "junk", "good:nostdout/E", "good:hex:nostdout/E"], "timeout": {"quick": 90, "thorough": 300}},
]
BOUNDS = {"fault step": "symbolic in 0..4 (0 = no fault; --file: 0..3, --hex: 0..5) over the output operations open, write, flush, close, print; errno symbolic in {ENOSPC, EPIPE, EIO}",
          "log": "one (case 'two': two) PEL(s) with symbolic severity class {0x00,0x40} and symbolic hidden / report flag "
                 "bits; truncated and junk variants",
          "options": "--clean symbolic; -E / -H / -s per case"}
ASSUMPTIONS = ["file system, print, sys.stdout.flush and argparse replaced by the in-memory world (stubs E1, E2, E4); a "
               "failing output operation raises OSError(ENOSPC)", "JSON text replaced by the FakeJson token (M7)"]
OUTSIDE = ["partial writes that report success", "faults of the operating system after close() returned"]


def _pel(eid, sev, flags, body=b"\x01\x02\x03"):
    return pb.PEL(pb.UD(body, comp=0x4321), ph=dict(eid=eid), uh=dict(sev=sev, flags=flags))


def _content(kind, eid, sev, flags):
    if kind == "good":
        return _pel(eid, sev, flags)
    if kind == "trunc":
        return _pel(eid, sev, flags)[:-2]
    if kind == "cut":           # cut exactly at the start of the last section
        return _pel(eid, sev, flags)[:-11]
    return b"this is not a PEL at all"


def _sevflags():
    """severity and action flags of the log: the three selection-relevant flag bits and four severity
    classes are symbolic (rendering every severity / flag name would only multiply paths)"""
    small = CASE.startswith("two") or ":hex" in CASE     # fewer log variants where the output has more steps
    b = sym_int("hid", 0, 1)
    c = sym_int("rep", 0, 1) if not small else 1
    flags = b * 0x4000 + c * 0x2000 + 0x0800
    si = sym_int("sevclass", 0, 1) if not small else 1
    sev = sym_ite(si == 0, 0x00, 0x40) if not small else 0x40
    return sev, flags


def _kind():
    """errno of the injected fault: 0 ENOSPC, 1 EPIPE (BrokenPipeError), 2 EIO - forks only where a fault is raised"""
    return sym_int("errno", 0, 2)


def _opts():
    sel = CASE.split("/")[1].split(":")[0] if "/" in CASE else ""
    return dict(clean=bool(sym_bool("clean")), every_pel="E" in sel, hidden="H" in sel, serviceable="s" in sel)


def _selected(sev, flags, o):
    hidden = bit_set(flags, 14)
    serv = sym_any([sym_all([sev != 0, bit_set(flags, 13), sym_not(hidden)]), sym_all([sev == 0, bit_set(flags, 15)])])
    return sym_any([o["every_pel"], sym_all([serv, sym_not(hidden)]), sym_all([o["hidden"], hidden]),
                    sym_all([o["serviceable"], serv])])


def h_json_clean() -> bool:
    """
    post: _
    """
    kind = CASE.split("/")[0]
    leftover = CASE.endswith(":leftover")
    sev, flags = _sevflags()
    fault = sym_int("fault", 0, 4)
    o = _opts()
    files = [("a.pel", _content("good" if kind == "two" else kind, 0x50000001, sev, flags))]
    if kind == "two":
        files.append(("b.pel", _pel(0x50000002, 0x40, 0xA800)))
    w = World(files=files, fault_at=fault, dirs=["/out"], fault_kind=_kind())
    if leftover:
        # history: an earlier run failed half-way and left a partial output file behind
        w.extra["/out/a.pel.50000001.json"] = '{\n    "Private Header": {'

    ns = Namespace(**dict(ARG_DEFAULTS, path="/pels", json=True, output_dir="/out", **o))
    try:
        status = run_main(peltool, w, ns)
    except Exception as e:
        return verdict(False, obs={"exception": repr(e)})
    conds = [status == 0]
    ev = w.events
    for idx, e in enumerate(ev):
        if e[0] != "remove":
            continue
        path = e[1]
        name = path.split("/")[-1]
        outp = "/out/%s.%s.json" % (name, "50000001" if name == "a.pel" else "50000002")
        before = ev[:idx]
        conds.append(o["clean"])
        conds.append(path in ("/pels/a.pel", "/pels/b.pel"))
        conds.append(("open_w", outp) in before and ("close", outp) in before)
        conds.append(any(x[0] == "write" and x[1] == outp for x in before))
        # no injected fault while this file's output was produced
        start = max([i for i, x in enumerate(before) if x == ("open_w", outp)] or [0])
        conds.append(not any(x[0] == "fault" for x in before[start:]))
        if name == "a.pel":
            conds.append(kind in ("good", "two"))
            conds.append(_selected(sev, flags, o))
    # completeness the other way round: with --clean, no fault and a selected good PEL the file is removed
    if kind == "good":
        want = sym_all([o["clean"], not any(x[0] == "fault" for x in ev), _selected(sev, flags, o)])
        conds.append(bool(want) == (("remove", "/pels/a.pel") in ev))
    return verdict(sym_all(conds), obs={"events": [x[:2] for x in ev], "status": status})


def h_file_clean() -> bool:
    """
    post: _
    """
    parts = CASE.split("/")[0].split(":")
    nostdout = "nostdout" in parts          # the tool was started with file descriptor 1 closed: sys.stdout is None
    parts = [x for x in parts if x != "nostdout"]
    kind, hexmode = parts[0], len(parts) > 1
    sev, flags = _sevflags()
    fault = sym_int("fault", 0, 3 if not hexmode else 4)
    o = _opts()
    w = World(files=[("one.pel", _content(kind, 0x50000001, sev, flags))], fault_at=fault, fault_kind=_kind())
    ns = Namespace(**dict(ARG_DEFAULTS, file="/pels/one.pel", hex=hexmode, **o))
    w.no_stdout = nostdout
    try:
        status = run_main(peltool, w, ns)
    except Exception as e:
        return verdict(False, obs={"exception": repr(e)})
    ev = w.events
    conds = [status in (0, 1)]
    removed = [e for e in ev if e[0] == "remove"]
    if nostdout:
        # nothing can have been printed: the input stays
        return verdict(sym_all([removed == [], not any(e[0] == "stdout" for e in ev)]), obs={"events": [x[:2] for x in ev], "status": status})
    conds.append(len(removed) <= 1)
    printed_doc = any(e[0] == "stdout" and (hasattr(e[1], "obj") or (hexmode and "PEL End" in str(e[1]))) for e in ev)
    for idx, e in enumerate(ev):
        if e[0] == "remove":
            before = ev[:idx]
            conds.append(e[1] == "/pels/one.pel")
            conds.append(o["clean"])
            conds.append(kind == "good")
            conds.append(_selected(sev, flags, o))
            conds.append(not any(x[0] == "fault" for x in ev))
            conds.append(any(x[0] == "stdout" and (hasattr(x[1], "obj") or hexmode) for x in before))
            # 'emitted completely': standard output was flushed after the last thing printed
            outs_before = [i for i, x in enumerate(before) if x[0] == "stdout"]
            conds.append(bool(outs_before) and any(x[0] == "flush" for x in before[outs_before[-1]:]))
    if kind == "good":
        want = sym_all([o["clean"], not any(x[0] == "fault" for x in ev), _selected(sev, flags, o)])
        conds.append(bool(want) == (len(removed) == 1))
    return verdict(sym_all(conds), obs={"events": [x[:2] if x[0] != "stdout" else ("stdout",) for x in ev], "status": status})


def h_long_name() -> bool:
    """
    post: _
    """
    # an input whose name is as long as a file name can be: it is never opened for writing, and it is removed only
    # after a distinct, complete output file was written
    n = int(CASE)
    name = "p" * n
    clean = bool(sym_bool("clean"))
    usedir = bool(sym_bool("output_dir"))
    w = World(files=[(name, _pel(0x50000001, 0x40, 0xA800))], dirs=["/out"])
    ns = Namespace(**dict(ARG_DEFAULTS, path="/pels", json=True, clean=clean, output_dir="/out" if usedir else None))
    try:
        status = run_main(peltool, w, ns)
    except Exception as e:
        return verdict(False, obs={"exception": repr(e)})
    ev = w.events
    inp = "/pels/" + name
    opened = [e[1] for e in ev if e[0] == "open_w"]
    conds = [status == 0, inp not in opened]
    for idx, e in enumerate(ev):
        if e[0] == "remove":
            conds += [clean, e[1] == inp, any(x[0] == "close" and x[1] != inp for x in ev[:idx])]
    return verdict(sym_all(conds), obs={"opened": [o[-30:] for o in opened], "events": [x[0] for x in ev]})
