"""C09 - unreadable files in a PEL directory never disturb the output for the others.

Relational: the real main() runs, per path, on the directory without and with one extra file (and on
the extra file alone, to learn whether this mode can decode it).  Symbolic: the extra file's position
in the sorted order, its content (random bytes, truncation offset, corrupted offset + replacement byte),
--reverse.  When the mode cannot decode the extra file, standard output (through the remembered JSON
objects), written files and exit status must be identical to the run without it; otherwise the output
must still be one well-framed document.
"""
from vlib.api import *
from vlib import pelbuild as pb
from vlib.stubs import World, Namespace, ARG_DEFAULTS, run_main
from pel.peltool import peltool, src as srcmod, comp_id

FUNCTIONS = ["peltool.main and every directory-mode function (-l -a -n --plid --src -j, --hex)", "peltool.parsePEL / "
             "parsePELSummary", "section decoders reachable from them incl. src.PCEIdentity diagnostics"]


def _co():
    return pb.callouts_subsection([pb.callout(pce=pb.pce_identity(), mr=pb.mru(((0x48, 1), (0x4D, 2)))),
                                   pb.callout(loc=b"Ufcs-P1\0", fru=pb.fru_identity(0x42, pn=b"BMC0001"))])


G1 = pb.PEL(pb.SRC(ascii=b"BD8D1111"), pb.UD(b"\x01\x02", comp=0x4321), ph=dict(eid=0x50000001, plid=0x50000001))
G2 = pb.PEL(pb.SRC(ascii=b"BD8D2222", flags=1, callouts=_co()), ph=dict(eid=0x50000002, plid=0x50000001))
J = pb.PEL(pb.SRC(ascii=b"BD8D3333", flags=1, callouts=_co()), pb.UD(b"\x01\x02\x03\x04\x05", comp=0x4321),
           ph=dict(eid=0x50000003, plid=0x50000001))

FULL_DECODE = ("a", "ahex", "j", "bmc")
READS_UP_TO = {"n": 72, "nE": 72, "l": 292, "lrev": 292, "plid": 292, "plidhex": 292, "src": 292}    # J: PH 0..48, UH ..72, SRC ..292
MODES = ["l", "a", "n", "plid", "src", "j", "ahex", "lrev", "bmc", "nE", "plidhex"]
KINDS = ["empty", "rand12", "trunc:60-76", "trunc:200-216", "trunc:296-305", "corrupt:0-4", "corrupt:48-52", "corrupt:72-76",
         "corrupt:83-84", "corrupt:212-214", "corrupt:214-215", "corrupt:215-216", "corrupt:154-156", "corrupt:156-157", "corrupt:186-187", "subdir", "subdir-ext",
         "subdir-only", "trunc:48-72"]
CASES = ["%s/%s" % (m, k) for m in MODES for k in KINDS] + ["a/empty:pct", "l/rand12:pct", "l/empty:pct", "j/empty:pct", "l/corrupt:186-187:v3", "a/corrupt:186-187:v3", "a/corrupt:214-215:v40", "l/corrupt:214-215:v40"]
QUICK = ["a/subdir-ext", "l/subdir-ext", "n/empty", "n/rand12", "l/corrupt:186-187", "l/corrupt:186-187:v3", "a/empty:pct", "l/empty:pct", "a/corrupt:0-4", "nE/trunc:48-72", "plidhex/trunc:200-216", "l/subdir-only", "bmc/corrupt:0-4", "a/corrupt:214-215:v40", "l/corrupt:214-215:v40", "a/trunc:200-216", "n/corrupt:48-52", "j/corrupt:83-84", "plid/rand12",
         "src/empty", "ahex/corrupt:0-4", "a/subdir", "l/corrupt:83-84", "lrev/trunc:60-76"]
HARNESSES = [{"fn": "h_isolate", "cases": CASES, "quick_cases": QUICK, "timeout": {"quick": 200, "thorough": 900}}]
BOUNDS = {"directory": "two well-formed logs + one extra file whose sorted position (first / middle / last) is symbolic",
          "extra file": "empty; 12 symbolic bytes; truncation of a 305-byte log at a symbolic offset (3 windows); one "
                        "corrupted byte (symbolic offset in a window, symbolic value) in PH id, UH id, SRC header, SRC word "
                        "count, callout header, FRU identity size byte, PCE identity; a sub-directory with files; a junk file name "
                        "containing printf-style directives",
          "modes": "-l, -a, -n, -n -E, --plid, --plid --hex, --src, -j, -a --hex, -l --reverse, --bmc-id"}
ASSUMPTIONS = ["file system, print, argparse replaced by the in-memory world (E1, E2, E4); print / sys of src.py and comp_id.py "
               "are routed to the same recorder", "JSON text replaced by the token (M7); documents are compared through the "
               "remembered objects", "'cannot decode' = the mode, run on the extra file alone, reports nothing"]
OUTSIDE = ["more than one junk file", "two corrupted bytes", "-j's own stdout line 'No PEL parsed for <file>' (see DESIGN.md 9)"]


def _opts(mode):
    o = dict(every_pel=False, skip_plugins=True)
    if mode in ("l", "lrev"):
        o["list"] = True
        o["reverse"] = mode == "lrev"
    elif mode in ("a", "ahex"):
        o["all"] = True
        o["hex"] = mode == "ahex"
    elif mode in ("n", "nE"):
        o["show_pel_count"] = True
        o["every_pel"] = mode == "nE"
    elif mode == "plidhex":
        o["plID"] = "0x50000001"
        o["hex"] = True
    elif mode == "plid":
        o["plID"] = "0x50000001"
    elif mode == "src":
        o["src"] = "BD8D"
    elif mode == "j":
        o["json"] = True
        o["output_dir"] = "/out"
    elif mode == "bmc":
        o["bmcID"] = "419"            # G1's BMC event log id (0x1A3)
    return o


def _run(files, mode, subdirs=None, ext=None):
    w = World(files=files, subdirs=subdirs, dirs=["/out"])
    ns = Namespace(**dict(ARG_DEFAULTS, path="/pels", **dict(_opts(mode), extension=ext)))
    st = run_main(peltool, w, ns, diag_modules=(srcmod, comp_id))
    return w, st


def _norm(w):
    """stdout + file events with JSON tokens replaced by their objects"""
    out = []
    for e in w.events:
        if e[0] == "stdout":
            o = e[1]
            out.append(("stdout", ("doc", o.obj) if hasattr(o, "obj") else o, e[2]))
        elif e[0] == "write":
            o = e[2]
            out.append(("write", e[1], ("doc", o.obj) if hasattr(o, "obj") else o))
        elif e[0] in ("open_w", "close", "remove"):
            out.append(e)
    return out


def _nothing(w, mode):
    """did the mode report nothing for the directory it ran on?"""
    outs = w.stdout()
    if mode in ("l", "lrev", "plid", "src"):
        return len(outs) == 1 and hasattr(outs[0], "obj") and outs[0].obj == {}
    if mode == "a":
        return outs == ["[", "]"]
    if mode in ("ahex", "plidhex"):
        return outs == []
    if mode in ("n", "nE"):
        return outs == ['{\n    "Number of PELs found": 0\n}']
    if mode == "j":
        return not any(e[0] == "open_w" for e in w.events)
    if mode == "bmc":
        return outs == ["PEL not found"]
    return False


def _well_framed(w, mode):
    outs = w.stdout()
    if mode in ("l", "lrev", "plid", "src"):
        return len(outs) == 1 and hasattr(outs[0], "obj")
    if mode in ("n", "nE"):
        return len(outs) == 1 and isinstance(outs[0], str) and outs[0].startswith('{\n    "Number of PELs found": ')
    if mode == "a":
        if len(outs) < 2 or outs[0] != "[" or outs[-1] != "]":
            return False
        body = outs[1:-1]
        if not body:
            return True
        if body[-1] != ():
            return False
        body = body[:-1]
        for i, o in enumerate(body):
            if (i % 2 == 0) != hasattr(o, "obj"):
                return False
            if i % 2 == 1 and o != ",":
                return False
        return len(body) % 2 == 1
    if mode == "bmc":
        return len(outs) == 1 and (hasattr(outs[0], "obj") or outs[0] == "PEL not found")
    if mode in ("ahex", "plidhex"):
        begins = [i for i, o in enumerate(outs) if o == "-------------- PEL Begin  ----------------"]
        ends = [i for i, o in enumerate(outs) if o == "-------------- PEL End    ----------------"]
        return len(begins) == len(ends) and all(b < e for b, e in zip(begins, ends))
    return True


_BASE = {}


def _baseline(mode):
    """the run without the extra file: concrete, identical on every path - computed once per process"""
    if mode not in _BASE:
        _BASE[mode] = _run([("n_50000002", G2), ("a_50000001", G1)], mode)
    return _BASE[mode]


def h_isolate() -> bool:
    """
    post: _
    """
    mode, kind = CASE.split("/")
    pos = sym_int("pos", 0, 2)
    pct = kind.endswith(":pct")             # a file name with printf-style directives in it
    kind = kind[:-4] if pct else kind
    name = "0junk"
    if pos == 1:
        name = "f_junk"
    elif pos == 2:
        name = "z_junk"
    if pct:
        name += "%d 100%s.%(x)s"
    good = [("n_50000002", G2), ("a_50000001", G1)]
    subdirs = None
    extra = None
    if kind == "empty":
        extra = b""
    elif kind == "rand12":
        extra = sym_bytes("r", 12)
    elif kind.startswith("trunc"):
        a, b = [int(x) for x in kind.split(":")[1].split("-")]
        t = sym_int("t", a, b - 1)
        tc = None
        for cand in range(a, b):
            if t == cand:
                extra = J[:cand]
                tc = cand
    elif kind.startswith("corrupt"):
        a, b = [int(x) for x in kind.split(":")[1].split("-")]
        vmax = int(kind.split(":v")[1]) if ":v" in kind else 255
        i, v = sym_int("i", a, b - 1), sym_int("v", 0, vmax)
        for cand in range(a, b):
            if i == cand:
                extra = mkbytes(J[:cand], [v], J[cand + 1:])
    elif kind == "subdir-ext":
        # --extension given, and a sub-directory whose name carries that extension: it is not a log file
        gx = [("n_50000002.d", G2), ("a_50000001.d", G1)]
        try:
            w0, s0 = _run(gx, mode, ext=".d")
            w1, s1 = _run(gx, mode, subdirs={"archive.d": [("x_50000009.d", J)], "empty.d": []}, ext=".d")
        except Exception as e:
            return verdict(False, obs={"exception": repr(e)})
        return verdict(sym_all([s0 == 0, s1 == 0, _norm(w1) == _norm(w0), _well_framed(w1, mode)]),
                       obs={"with": [str(o)[:60] for o in w1.stdout()], "status": [s0, s1]})
    elif kind == "subdir-only":
        # nothing but sub-directories in the PEL directory: the result is that of an empty directory
        try:
            w0, s0 = _run([], mode)
            w1, s1 = _run([], mode, subdirs={"archive": [("x_50000009", J), ("y_50000002", G2)], "empty": []})
        except Exception as e:
            return verdict(False, obs={"exception": repr(e)})
        return verdict(sym_all([s0 == 0, s1 == 0, _norm(w1) == _norm(w0), _nothing(w1, mode) or mode == "bmc"]),
                       obs={"with": [str(o)[:60] for o in w1.stdout()]})
    else:
        subdirs = {"archive": [("x_50000009", J), ("junk", b"zz")]}
    try:
      with deadline(30 if SYMBOLIC else 20):
        w0, s0 = _baseline(mode)
        if subdirs is not None:
            w1, s1 = _run(good, mode, subdirs=subdirs)
            alone_nothing = True
        else:
            w1, s1 = _run(good[:1] + [(name, extra)] + good[1:], mode)
            if kind == "empty" or (kind.startswith("trunc") and (mode in FULL_DECODE or tc < READS_UP_TO[mode])):
                # nothing at all, or a proper prefix that ends inside what this mode reads (the whole file for the
                # displaying modes, the two headers for the count mode, headers + primary SRC for the summaries), is
                # undecodable by construction; a cut beyond that is the mode's own business (C09 statement) - asked below
                alone_nothing = True
            elif kind in ("corrupt:0-4", "corrupt:48-52") and bool(sym_any([sym_all([i == a + k, v != J[a + k]]) for k in range(2)])):
                # a damaged 'PH' / 'UH' section id: the headers cannot be read
                alone_nothing = True
            else:
                wj, sj = _run([(name, extra)], mode)
                alone_nothing = _nothing(wj, mode)
    except HangDetected as e:
        return verdict(False, obs={"hang": repr(e)})
    except Exception as e:
        return verdict(False, obs={"exception": repr(e)})
    conds = [s0 == 0, s1 == 0, _well_framed(w1, mode)]
    if alone_nothing:
        if mode == "j":
            # -j: the files written for the other logs are unchanged (its stdout is not a document, DESIGN.md 9)
            keep = lambda ev: [e for e in ev if e[0] in ("write", "open_w", "close", "remove")]
            conds.append(keep(_norm(w1)) == keep(_norm(w0)))
        else:
            conds.append(_norm(w1) == _norm(w0))
    return verdict(sym_all(conds), obs={"with": [str(o)[:60] for o in w1.stdout()], "without": [str(o)[:60] for o in w0.stdout()],
                                        "status": [s0, s1], "junk_undecodable": alone_nothing})
