"""C11 - only delete options remove files, and only the files they name.

The real main() runs in the in-memory world with *every* command-line switch symbolic (E4) over a
directory tree with top-level files, an archive sub-directory and a nested directory.  Assertion on
the recorded events: every remove event is justified by an option that was given (and satisfies that
option's rule); without a delete / clean option nothing is removed; files are created only under
--json, only named <pel file>.<entry id>.json in the chosen output directory.
"""
from vlib.api import *
from vlib import pelbuild as pb
from vlib.stubs import World, Namespace, ARG_DEFAULTS, run_main
from pel.peltool import peltool

FUNCTIONS = ["peltool.main (whole dispatch)", "peltool.deletePELFromPELId", "peltool.deleteAllPELs", "peltool.processId",
             "peltool.parseAndWriteOutput", "every mode function of peltool.py"]
HARNESSES = [
    {"fn": "h_dispatch", "cases": ["modesA", "modesB", "strings", "bmc"], "timeout": {"quick": 120, "thorough": 400}},
    {"fn": "h_delete_id", "cases": ["top", "suboly", "none", "two", "pathid", "empty-top", "twotop", "meta"], "timeout": {"quick": 90, "thorough": 300}},
    {"fn": "h_delete_all", "cases": ["mixed", "empty-top", "non-regular"], "timeout": {"quick": 90, "thorough": 300}},
    {"fn": "h_json_names", "cases": ["plid-differs", "ext", "small-eid"], "timeout": {"quick": 90, "thorough": 300}},
]
BOUNDS = {"tree": "3 top-level files (two PELs named <stamp>_<entry id>, one note), sub-directories 'archive' (2 files, one "
                  "whose name contains a top-level id) and 'nested' (1 file)",
          "dispatch": "all boolean switches symbolic; string options symbolic choice of absent / a catalogue value",
          "ids": "delete id: symbolic choice among ids matching a top-level file, only an archived file, nothing, two files"}
ASSUMPTIONS = ["file system, print and argparse replaced by the in-memory world (stubs E1, E2, E4)",
               "JSON text replaced by the FakeJson token (M7)"]
OUTSIDE = ["real file-system semantics (symlinks, permissions, races)", "directories with more than 3 top-level files"]

GOOD1 = pb.PEL(pb.SRC(), pb.UD(b"\x01\x02", comp=0x4321), ph=dict(eid=0x50000001, plid=0x50000001, obmc=7))
GOOD2 = pb.PEL(pb.SRC(ascii=b"BD8D5678"), ph=dict(eid=0x50000002, plid=0x50000009, obmc=8), uh=dict(flags=0x6800))
ARCH = pb.PEL(ph=dict(eid=0x50000003))


def tree(top_empty=False, path="/pels"):
    top = [] if top_empty else [("2024010100000000_50000001", GOOD1), ("2024010100000001_50000002", GOOD2),
                                ("notes.txt", b"not a pel")]
    return World(path=path, files=top,
                 subdirs={"archive": [("2023010100000000_50000003", ARCH), ("old_50000001", GOOD1)],
                          "nested": [("deep_50000002", GOOD2)]},
                 extra={"/etc/exclude.txt": "BD8D5678\n"}, dirs=["/out"])


def top_paths(w):
    return [w.path.rstrip("/") + "/" + n for n, _ in w.files]


def check_events(w, ns, conds):
    """the rules of the statement, applied to every recorded file-system effect"""
    tops = top_paths(w)
    removes = [e[1] for e in w.events if e[0] == "remove"]
    creates = [e[1] for e in w.events if e[0] == "open_w"]
    justified_by_id = 0
    for p in removes:
        why = []
        if ns.file and ns.clean and p == ns.file:
            why.append("file-clean")
        if ns.json and ns.clean and p in tops:
            why.append("json-clean")
        if ns.deleteAll and p in tops:
            why.append("delete-all")
        if ns.IDToDelete and p in tops:
            e = ns.IDToDelete.upper()
            e = e[2:] if e.startswith("0X") else e
            if e in p.split("/")[-1]:
                why.append("delete-id")
                if why == ["delete-id"]:
                    justified_by_id += 1
        conds.append(len(why) > 0)
        conds.append(not p.startswith(w.path.rstrip("/") + "/archive/") and not p.startswith(w.path.rstrip("/") + "/nested/"))
    conds.append(justified_by_id <= 1)
    for p in creates:
        ok = bool(ns.json)
        outdir = ns.output_dir or w.path
        name = p[len(outdir.rstrip("/")) + 1:] if p.startswith(outdir.rstrip("/") + "/") else None
        ok = ok and name is not None and "/" not in name
        if ok:
            ok = any(name == "%s.%s.json" % (n, n.split("_")[-1]) for n, _ in w.files)
        conds.append(ok)
    return removes, creates


def choice(name, options):
    i = sym_int(name, 0, len(options) - 1)
    for k, v in enumerate(options):
        if i == k:
            return v
    return options[0]


def h_dispatch() -> bool:
    """
    post: _
    """
    kw = dict(ARG_DEFAULTS, path="/pels")
    if CASE == "modesA":
        for b in ("list", "all", "show_pel_count", "deleteAll", "json", "clean"):
            kw[b] = bool(sym_bool(b))
        kw["IDToDelete"] = choice("d", [None, "0x50000002"])
    elif CASE == "modesB":
        for b in ("hex", "reverse", "every_pel", "list", "all", "show_pel_count", "clean"):
            kw[b] = bool(sym_bool(b))
    elif CASE == "strings":
        kw["file"] = choice("f", [None, "/pels/2024010100000000_50000001"])
        kw["pelID"] = choice("i", [None, "50000001"])
        kw["plID"] = choice("p", [None, "0x50000009"])
        kw["src"] = choice("s", [None, "BD8D"])
        kw["src_exclude_file"] = choice("x", [None, "/etc/exclude.txt"])
        kw["clean"] = bool(sym_bool("clean"))
        kw["deleteAll"] = bool(sym_bool("deleteAll"))
        kw["every_pel"] = True
    else:
        kw["bmcID"] = choice("b", [None, "7", "8", "99"])
        kw["output_dir"] = choice("o", [None, "/out"])
        kw["json"] = bool(sym_bool("json"))
        kw["clean"] = bool(sym_bool("clean"))
        kw["extension"] = choice("e", [None, ".txt"])
        kw["IDToDelete"] = choice("d", [None, "50000001"])
    ns = Namespace(**kw)
    w = tree()
    try:
        status = run_main(peltool, w, ns)
    except Exception as e:
        return verdict(False, obs={"exception": repr(e)})
    conds = [status in (0, None) or isinstance(status, str)]
    removes, creates = check_events(w, ns, conds)
    if not (ns.clean or ns.deleteAll or ns.IDToDelete):
        conds.append(removes == [])
    if not ns.json:
        conds.append(creates == [])
    return verdict(sym_all(conds), obs={"removes": removes, "creates": creates, "status": status})


def h_delete_id() -> bool:
    """
    post: _
    """
    spell = choice("spell", ["0x%s", "%s", "0X%s"])
    path = "/pels"
    if CASE == "top":
        e, expect = "50000002", ["/pels/2024010100000001_50000002"]
    elif CASE == "suboly":
        e, expect = "50000003", []                 # exists only in the archive
    elif CASE == "none":
        e, expect = "5000ABCD", []
    elif CASE == "two":
        e, expect = "50000001", ["/pels/2024010100000000_50000001"]     # also in archive/: untouched
    elif CASE == "pathid":
        e, expect, path = "50000009", [], "/dump_50000009/logs"        # the id occurs in the directory path only
    elif CASE == "meta":
        # eight characters that are not an id but mean something to a pattern matcher: nothing is named by them
        e = choice("meta", ["5000000.", "........", "5000000?", "[0-9]{8}", "5000000*", ".*000002"])
        expect = []
    elif CASE == "twotop":
        e, expect = "50000002", None               # two top-level names contain the id (the PEL and its .json): at most one goes
    else:
        e, expect = "50000003", []
    lower = bool(sym_bool("lower"))
    idtxt = spell % (e.lower() if lower else e)
    w = tree(top_empty=(CASE == "empty-top"), path=path)
    if CASE == "twotop":
        w.files.append(("2024010100000001_50000002.50000002.json", b"{}"))
    ns = Namespace(**dict(ARG_DEFAULTS, path=path, IDToDelete=idtxt))
    try:
        status = run_main(peltool, w, ns)
    except Exception as e2:
        return verdict(False, obs={"exception": repr(e2)})
    removes = [x[1] for x in w.events if x[0] == "remove"]
    if expect is None:
        conds = [status == 0, len(removes) == 1, removes[0].startswith("/pels/2024010100000001_50000002") if removes else False,
                 not any(x[0] == "stdout" for x in w.events)]
        return verdict(sym_all(conds), obs={"removes": removes})
    if CASE == "meta":
        # (how the tool words its refusal is not part of the property: nothing may be removed or written)
        conds = [removes == []]
    else:
        conds = [status == 0, removes == expect, ("stdout", "PEL not found", "\n") in w.events if not expect else
                 not any(x[0] == "stdout" for x in w.events)]
    conds.append(not any(x[0] == "open_w" for x in w.events))
    return verdict(sym_all(conds), obs={"removes": removes, "events": [x[:2] for x in w.events]})


def h_delete_all() -> bool:
    """
    post: _
    """
    w = tree(top_empty=(CASE == "empty-top"))
    if CASE == "non-regular":
        # entries that are not regular files (a FIFO, a dangling symlink): listed by the walk, not deleted
        w.files += [("fifo", None), ("dangling-link", None)]
    extra = {k: bool(sym_bool(k)) for k in ("hex", "reverse", "every_pel", "only")}
    ns = Namespace(**dict(ARG_DEFAULTS, path="/pels", deleteAll=True, **extra))
    try:
        status = run_main(peltool, w, ns)
    except Exception as e2:
        return verdict(False, obs={"exception": repr(e2)})
    removes = [x[1] for x in w.events if x[0] == "remove"]
    regular = sorted(w.path.rstrip("/") + "/" + n for n, d in w.files if d is not None)
    conds = [status == 0, sorted(removes) == regular, not any(x[0] == "open_w" for x in w.events)]
    return verdict(sym_all(conds), obs={"removes": removes})


def h_json_names() -> bool:
    """
    post: _
    """
    out = choice("o", [None, "/out"])
    ext = ".txt" if CASE == "ext" else None
    w = tree()
    if CASE == "ext":
        w.files.append(("third_50000004.txt", pb.PEL(ph=dict(eid=0x50000004, plid=0x50000001))))
    if CASE == "small-eid":
        eid = choice("eid", [0x00000001, 0x0A0B0C0D, 0x00000000, 0x000A0010])      # entry ids with leading zero digits
        w.files = [("small", pb.PEL(ph=dict(eid=eid)))]
    ns = Namespace(**dict(ARG_DEFAULTS, path="/pels", json=True, output_dir=out, every_pel=True, extension=ext))
    try:
        status = run_main(peltool, w, ns)
    except Exception as e2:
        return verdict(False, obs={"exception": repr(e2)})
    creates = sorted(x[1] for x in w.events if x[0] == "open_w")
    d = out or "/pels"
    if CASE == "small-eid":
        conds = [status == 0, len(creates) == 1, not any(x[0] == "remove" for x in w.events)]
        if len(creates) == 1:
            conds.append(creates[0] == "%s/small.%08X.json" % (d, eid))
        return verdict(sym_all(conds), obs={"creates": creates})
    if CASE == "ext":
        exp = [d + "/third_50000004.txt.50000004.json"]
    else:
        exp = sorted([d + "/2024010100000000_50000001.50000001.json", d + "/2024010100000001_50000002.50000002.json"])
    conds = [status == 0, creates == exp, not any(x[0] == "remove" for x in w.events)]
    return verdict(sym_all(conds), obs={"creates": creates})
