"""C05 - malformed PELs are rejected cleanly (also under python -O).

Every harness is run twice by the runner: python3-vt and python3-vt -O (assert statements of
the code under test compiled out); counter-examples are replayed with the same switch.
"""
import sys

from vlib.api import *
from vlib import pelbuild as pb
from vlib.stubs import FakeJson, patched
from pel.datastream import DataStream
from pel.peltool import peltool
from pel.peltool.config import Config

FUNCTIONS = ["peltool.parsePEL (exit_on_error True/False) and everything below it", "DataStream.check_range/inc_index/"
             "get_mem/get_int", "peltool.parseAndPrintPELFile", "peltool.main (-f)", "SRC/Callout/MRU/LP loops"]


def _co():
    return pb.callouts_subsection([pb.callout(pce=pb.pce_identity(), mr=pb.mru(((0x48, 1), (0x4D, 2)))),
                                   pb.callout(loc=b"Ufcs-P1\0", fru=pb.fru_identity(0x42, pn=b"BMC0001"))])


def catalogue():
    return {
        "P0": pb.PEL(),
        "P1": pb.PEL(pb.SRC(), pb.EH(), pb.MT()),
        "P2": pb.PEL(pb.SRC(flags=1, callouts=_co()), pb.UD(b"\x01\x02\x03\x04\x05", comp=0x4321)),
        "P3": pb.PEL(pb.LP(), pb.ED(b"\x0A\x0B\x0C", comp=0x4321), pb.OTHER("DH", b"\xDE\xAD"), pb.OTHER("ZZ", b"\x01")),
        "P4": pb.PEL(pb.SRC(), pb.SRC(sid="SS", flags=1, callouts=_co()), pb.UD(b'{"a": 1}\0\0\0\0', sub=1),
                     pb.UD(b"line one\nline two\0\0\0", sub=3)),
        # every content-driven section type once as the LAST section (its tail is the end of the file)
        "P5": pb.PEL(pb.SRC(), pb.LP(targets=(0x0011, 0x0022, 0x0033))),
        "P6": pb.PEL(pb.SRC(), pb.EH()),
        "P7": pb.PEL(pb.MT(), pb.SRC(flags=1, callouts=_co())),
        # a section served by a shipped parser module (hardware-diagnostics signature list, 2 signatures)
        "P8": pb.PEL(pb.SRC(), pb.UD(bytes.fromhex("00000002" "20da0020" "00070301" "ab120104" "20da0020" "00080302" "00ff0105"),
                                       sub=1, comp=0xE500)),
        # a callout whose LAST sub-structure is the PCE identity (a too-small size byte leaves the stream aligned)
        "P9": pb.PEL(pb.SRC(flags=1, callouts=pb.callouts_subsection([pb.callout(pce=pb.pce_identity())])), pb.UD(bytes(112), comp=0x4321)),
    }


CAT = None


def cat(name):
    global CAT
    if CAT is None:
        CAT = catalogue()
    return CAT[name]


LENS = {k: len(v) for k, v in catalogue().items()}

TRUNC = ["%s:%d-%d" % (k, a, min(a + 32, n)) for k, n in sorted(LENS.items()) for a in range(0, n, 32)]


def _win(name, lo, hi):
    return ["%s:%d-%d" % (name, a, min(a + 8, hi)) for a in range(lo, hi, 8)]


# single-byte corruptions: P0 = PH+UH; P1 = SRC without callouts, EH, MT; P2 = callouts + UD; P3 = LP, ED, DH, ZZ
CORR = _win("P0", 0, 72) + _win("P1", 72, LENS["P1"]) + _win("P2", 152, LENS["P2"]) + _win("P3", 72, LENS["P3"]) \
    + _win("P4", LENS["P4"] - 64, LENS["P4"])          # the built-in JSON / text user-data sections
CORR_OPT = ["P0:0-8", "P0:48-56", "P1:72-80", "P2:152-156", "P2:156-157", "P3:72-80", "P3:80-88"]
CORR = [c for c in CORR if c != "P2:152-160"] + ["P2:152-156", "P2:156-157", "P2:157-158", "P2:158-159", "P2:159-160"]
QUICK_CORR = ["P0:48-56", "P1:72-80", "P2:152-156", "P2:156-157", "P2:157-158", "P3:80-88", "P3:96-104"]
QUICK_TRUNC = [c for c in TRUNC if c.startswith("P0:")] + ["P2:64-96", "P2:128-160", "P2:224-256", "P2:288-305", "P3:96-128"] \
    + [[c for c in TRUNC if c.startswith(k + ":")][-1] for k in ("P5", "P6", "P7")]

HARNESSES = [
    {"fn": "h_short", "cases": ["any24", "PH16"], "opt": True, "timeout": {"quick": 60, "thorough": 300}},
    {"fn": "h_trunc", "cases": TRUNC, "quick_cases": QUICK_TRUNC, "opt": True, "timeout": {"quick": 90, "thorough": 300}},
    {"fn": "h_corrupt", "cases": [c for c in CORR if c not in CORR_OPT], "quick_cases": [c for c in QUICK_CORR if c not in CORR_OPT],
     "timeout": {"quick": 90, "thorough": 800}},
    {"fn": "h_corrupt", "cases": CORR_OPT, "quick_cases": [c for c in QUICK_CORR if c in CORR_OPT], "opt": True,
     "timeout": {"quick": 90, "thorough": 400}},
    {"fn": "h_cli", "cases": ["trunc:P1", "junk", "good:P1", "corrupt:P2", "corrupt:P2:214", "corrupt:P9:pe", "trunc:P5"],
     "quick_cases": ["trunc:P1", "junk", "corrupt:P2:214", "corrupt:P9:pe", "trunc:P5"], "opt": True, "timeout": {"quick": 90, "thorough": 300}},
    {"fn": "h_plugin", "cases": ["count0", "count1", "count2", "count3", "body"], "quick_cases": ["count0", "count3"],
     "timeout": {"quick": 120, "thorough": 400}},
    {"fn": "h_dir", "cases": ["after-good", "before-good", "two-bad:a", "two-bad:j", "two-bad:l", "two-bad:n"], "timeout": {"quick": 120, "thorough": 400}},
    {"fn": "h_text_progress", "cases": ["text", "json"], "timeout": {"quick": 90, "thorough": 300}},
]
BOUNDS = {"short": "all byte strings of length <= 24; 'PH' + 2 symbolic length bytes + 20 symbolic bytes",
          "truncation": "every proper prefix (cut point symbolic, one solver-resolved path per offset) of 9 catalogue PELs "
                        "covering every section type, each content-driven type also as the last section; both exit_on_error values",
          "plugins": "a hardware-diagnostics signature list (shipped parser module) with each byte of its 32-bit count symbolic; "
                     "-a over a directory with a truncated log before / after a good one",
          "corruption": "every single-byte corruption (offset symbolic per 8-byte window, replacement byte symbolic over "
                        "all 256 values) of PH+UH, SRC without and with callouts, EH, MT, UD, LP, ED and hexdump-only "
                        "sections (72 windows)", "interpreter": "python3-vt and python3-vt -O (all but 57 corruption windows in both)",
          "progress": "each decode runs under a 20 s (symbolic) / 10 s (replay) deadline"}
ASSUMPTIONS = ["json.dumps/prettyPrint replaced by the FakeJson token (M7)", "print replaced by a recorder; open() in "
               "h_cli replaced by an in-memory file (E1)", "wall-clock promptness is replaced by the deadline"]
OUTSIDE = ["byte strings other than the families above", "two or more corrupted bytes"]


class _Rec:
    def __init__(self):
        self.out, self.err = [], []

    def __call__(self, *a, **k):
        (self.err if k.get("file") is sys.stderr else self.out).append(a)


def run_parse(data, exit_on_error, budget=20):
    """-> (kind, value) with kind in doc / empty / exception / exit / base / hang"""
    fj, rec = FakeJson(), _Rec()
    cfg = Config()
    cfg.allow_plugins = False
    try:
        with deadline(budget if SYMBOLIC else 10):
            with patched(peltool, json=fj, prettyPrint=lambda t, *a, **k: t, print=rec):
                eid, tok = peltool.parsePEL(DataStream(data, byte_order="big", is_signed=False), cfg, exit_on_error)
        if tok == "" and eid == "":
            return "empty", rec
        return "doc", tok
    except HangDetected as e:
        return "hang", repr(e)
    except Exception as e:
        return "exception", repr(e)
    except SystemExit as e:
        return "exit", e.code


def h_text_progress() -> bool:
    """
    post: _
    """
    # prompt termination is also owed to PELs whose text is unusual rather than damaged: a line made of dozens of
    # backslashes / quotes (UNC paths, regular expressions) goes through the real json module and the real column
    # alignment under the progress deadline
    alph = chr(92) + '"' + "a:"
    c = sym_str("c", 2, alph)
    tail = None
    for a1 in alph:
        for a2 in alph:
            if tail is None and sym_all([ord(c[0]) == ord(a1), ord(c[1]) == ord(a2)]):
                tail = a1 + a2
    line = chr(92) * 30 + tail + "x"
    if CASE == "text":
        sect = pb.UD((line + "\nsecond").encode(), sub=3, comp=0x2000)
    else:
        import json as realjson
        sect = pb.UD(realjson.dumps({"path": line, "l": [line]}).encode(), sub=1, comp=0x2000)
    pel = pb.PEL(sect)
    cfg = Config()
    cfg.allow_plugins = False
    try:
        with deadline(20 if SYMBOLIC else 10):
            eid, text = peltool.parsePEL(DataStream(pel, byte_order="big", is_signed=False), cfg, False)
    except HangDetected as e:
        return verdict(False, obs={"hang": repr(e)})
    except Exception as e:
        return verdict(False, obs={"exception": repr(e)})
    return verdict(isinstance(text, str) and len(text) > 0, obs={"eid": eid})


def h_short() -> bool:
    """
    post: _
    """
    eoe = sym_bool("exit_on_error")
    eoe = bool(eoe)
    if CASE == "any24":
        n = sym_int("n", 0, 24)
        raw = sym_bytes("d", 24)
        data = None
        for cand in range(25):
            if n == cand:
                data = raw[:cand]
    else:
        data = mkbytes(b"PH", sym_bytes("d", 22))
    kind, val = run_parse(data, eoe)
    # nothing this short is a PEL: it must be rejected, and only exit_on_error may leave via SystemExit(1)
    ok = kind in ("exception", "empty") or (kind == "exit" and eoe and val == 1)
    return verdict(ok, obs={"kind": kind, "val": val if kind != "empty" else "diagnostic"})


def _range():
    name, r = CASE.split(":")
    a, b = [int(x) for x in r.split("-")]
    return name, a, b


def h_trunc() -> bool:
    """
    post: _
    """
    name, a, b = _range()
    P = cat(name)
    t = sym_int("t", a, b - 1)
    eoe = bool(sym_bool("exit_on_error"))
    data = None
    for cand in range(a, b):
        if t == cand:
            data = P[:cand]
    kind, val = run_parse(data, eoe)
    ok = kind == "exception" or (kind == "empty") or (kind == "exit" and eoe and val == 1)
    return verdict(ok, obs={"kind": kind, "val": val if kind in ("exception", "exit", "hang") else None, "cut": len(data)})


def h_corrupt() -> bool:
    """
    post: _
    """
    name, a, b = _range()
    P = cat(name)
    i = sym_int("i", a, b - 1)
    v = sym_int("v", 0, 255)
    eoe = bool(sym_bool("exit_on_error"))
    data = None
    for cand in range(a, b):
        if i == cand:
            data = mkbytes(P[:cand], [v], P[cand + 1:])
    kind, val = run_parse(data, eoe)
    ok = kind in ("doc", "exception", "empty") or (kind == "exit" and eoe and val == 1)
    return verdict(ok, obs={"kind": kind, "val": val if kind in ("exception", "exit", "hang") else None})


class _MemFile:
    def __init__(self, data):
        self.data = data

    def read(self):
        return self.data

    def __enter__(self):
        return self

    def __exit__(self, *a):
        return False


def h_cli() -> bool:
    """
    post: _
    """
    what = CASE.split(":")[0]
    if what == "junk":
        data = sym_bytes("d", 12)
    else:
        P = cat(CASE.split(":")[1])
        if what == "trunc":
            t = sym_int("t", len(P) - 40, len(P) - 1)
            data = None
            for cand in range(len(P) - 40, len(P)):
                if t == cand:
                    data = P[:cand]
        elif what == "corrupt" and CASE.endswith(":pe"):
            off = bytes(P).find(b"PE") + 2
            v = sym_int("v", 0, 40)            # the PCE identity's size byte, the identity being the last thing in its callout
            data = mkbytes(P[:off], [v], P[off + 1:])
        elif what == "corrupt" and CASE.endswith(":214"):
            v = sym_int("v", 0, 40)            # the PCE identity's size byte (values below 24 are 'too small')
            data = mkbytes(P[:214], [v], P[215:])
        elif what == "corrupt":
            i = sym_int("i", 152, 159)
            v = sym_int("v", 0, 255)
            data = None
            for cand in range(152, 160):
                if i == cand:
                    data = mkbytes(P[:cand], [v], P[cand + 1:])
        else:
            data = P
    rec, fj = _Rec(), FakeJson()
    removed = []

    def fake_open(path, mode="r", *a, **k):
        if "r" in mode and path == "/pels/one.pel":
            return _MemFile(data)
        raise OSError(2, "No such file", path)

    class _Stdout:
        def flush(self):
            pass

    import os
    status, escaped = None, None
    try:
        with deadline(30 if SYMBOLIC else 10):
            with patched(peltool, json=fj, prettyPrint=lambda t, *a, **k: t, print=rec, open=fake_open), \
                    patched(sys, argv=["peltool.py", "-P", "-f", "/pels/one.pel"]):
                peltool.main()
    except SystemExit as e:
        status = e.code
    except BaseException as e:     # a traceback the user would see
        escaped = repr(e)
    conds = [escaped is None, status in (0, 1)]
    # stdout carries the document or nothing
    conds.append(all(len(a) == 1 and hasattr(a[0], "obj") for a in rec.out))
    conds.append(len(rec.out) <= 1)
    if what in ("trunc", "junk"):
        conds.append(len(rec.out) == 0)
        conds.append(len(rec.err) >= 1)
    if what == "good":
        conds.append(len(rec.out) == 1 and status == 0)
    return verdict(sym_all(conds), obs={"status": status, "escaped": escaped, "stdout_items": len(rec.out), "stderr_items": len(rec.err)})


def h_plugin() -> bool:
    """
    post: _
    """
    # corruption inside a section that a shipped parser module decodes (plugins enabled): still terminates promptly
    from vlib.stubs import patched as _p
    P = cat("P8")
    base = len(P) - 28                     # offset of the signature list's count word
    if CASE.startswith("count"):
        k = int(CASE[5:])
        # (extreme values by solver-resolved choice: a symbolic loop bound would be explored one iteration count at a time)
        vi = sym_int("vi", 0, 5)
        v = 0
        for idx, cand in enumerate((0x00, 0x01, 0x02, 0x7F, 0x80, 0xFF)):
            if vi == idx:
                v = cand
        data = P[:base + k] + bytes([v]) + P[base + k + 1:]
    else:
        i = sym_int("i", base + 4, len(P) - 1)
        v = sym_int("v", 0, 255)
        data = None
        for cand in range(base + 4, len(P)):
            if i == cand:
                data = mkbytes(P[:cand], [v], P[cand + 1:])
    fj, rec = FakeJson(), _Rec()
    cfg = Config()
    from pel.peltool import user_data, parse_user_data
    from udparsers.oe500 import oe500
    try:
        with deadline(25 if SYMBOLIC else 10):
            from harness.C20_hwdiags import env as chipdata_env      # (directory scan of the chip data files stubbed: E5)
            with patched(peltool, json=fj, prettyPrint=lambda t, *a, **k: t, print=rec), _p(user_data, json=fj), \
                    _p(parse_user_data, json=fj), _p(oe500, json=fj), chipdata_env(False):
                eid, tok = peltool.parsePEL(DataStream(data, byte_order="big", is_signed=False), cfg, False)
        kind = "doc" if hasattr(tok, "obj") else "empty"
    except HangDetected as e:
        kind = "hang"
    except Exception as e:
        kind = "exception"
    return verdict(kind in ("doc", "exception"), obs={"kind": kind})


def h_dir() -> bool:
    """
    post: _
    """
    # --all-pels over a directory: a truncated log is reported on stderr only - never shown as a (fabricated) document
    from vlib.stubs import World, Namespace, ARG_DEFAULTS, run_main
    good = pb.PEL(pb.SRC(ascii=b"BD8D1111"), ph=dict(eid=0x50000011))
    full = cat("P2")
    t = sym_int("t", 200, 230) if not CASE.endswith(":n") else 200      # (count mode has its own cut, t2)
    bad = None
    for cand in range(200, 231):
        if t == cand:
            bad = full[:cand]
    files = [("a_good", good), ("b_bad", bad)] if CASE == "after-good" else [("a_bad", bad), ("b_good", good)]
    rev = bool(sym_bool("reverse"))
    mode = dict(all=True)
    if CASE.startswith("two-bad"):
        # several damaged files in one directory: still an ordinary run (exit status 0), one diagnostic per file
        files = [("a_bad", bad), ("b_good", good), ("c_bad", full[:100]), ("d_bad", b"")]
        mode = {"a": dict(all=True), "j": dict(json=True, output_dir="/out"), "l": dict(list=True),
                "n": dict(show_pel_count=True)}[CASE.split(":")[1]]
        if mode.get("show_pel_count"):
            # count mode reads the two headers only (72 bytes): a file cut inside them is not a PEL and is not counted
            t2 = sym_int("t2", 0, 71)
            bad2 = None
            for cand in range(72):
                if t2 == cand:
                    bad2 = full[:cand]
            files = [("a_bad", bad2), ("b_good", good), ("d_bad", b"")]
    w = World(files=files, dirs=["/out"])
    ns = Namespace(**dict(ARG_DEFAULTS, path="/pels", reverse=rev, every_pel=True, skip_plugins=True, **mode))
    from vlib.stubs import WorldUnsupported
    try:
        with deadline(30 if SYMBOLIC else 10):
            status = run_main(peltool, w, ns)
    except WorldUnsupported:
        raise
    except BaseException as e:
        return verdict(False, obs={"escaped": repr(e)})
    if CASE.startswith("two-bad") and not mode.get("all"):
        if mode.get("show_pel_count"):
            outs = [o for o in w.stdout()]
            return verdict(sym_all([status == 0, len(outs) == 1 and str(outs[0]) == '{\n    "Number of PELs found": 1\n}', len(w.stderr()) >= 1]),
                           obs={"status": status, "stdout": [str(o) for o in outs]})
        if mode.get("json"):
            docs = [e[2].obj for e in w.events if e[0] == "write" and hasattr(e[2], "obj")]
            ok = len(docs) == 1 and docs[0]["Private Header"]["Entry Id"] == "0x50000011"
        else:
            docs = [o.obj for o in w.stdout() if hasattr(o, "obj")]
            ok = len(docs) == 1 and list(docs[0].keys()) == ["0x50000011"]
        return verdict(sym_all([status == 0, ok, len(w.stderr()) >= 1]), obs={"status": status, "stderr": len(w.stderr())})
    docs = [o.obj for o in w.stdout() if hasattr(o, "obj")]
    conds = [status == 0, len(docs) == 1, len(w.stderr()) >= 1]
    if len(docs) == 1:
        conds.append(docs[0]["Private Header"]["Entry Id"] == "0x50000011")
    return verdict(sym_all(conds), obs={"docs": [d["Private Header"]["Entry Id"] for d in docs], "status": status})
