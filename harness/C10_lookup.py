"""C10 - look-ups by platform log id, BMC id, entry id and SRC return exactly the matches.

The real main() runs in the in-memory world.  Symbolic: the stored id (all 32-bit values), the
queried id and its spelling (0x / 0X / none, upper / lower case digits), reference-code characters,
query strings, exclusion-file content, and the log's hidden / report flags (look-ups must find
hidden and non-serviceable logs without selection options).
"""
from vlib.api import *
from vlib import pelbuild as pb
from vlib.stubs import World, Namespace, ARG_DEFAULTS, run_main
from pel.peltool import peltool

FUNCTIONS = ["peltool.main", "peltool.processId", "peltool.parsePelFromPLID", "peltool.parsePelFromBmcID",
             "peltool.parsePelFromID", "peltool.parsePelFromSRCID", "peltool.parsePELSummary", "peltool.considerPEL",
             "PrivateHeader.toJSON (id formatting)"]
HARNESSES = [
    {"fn": "h_plid", "cases": ["", "0x", "0X", "0x:nosrc"], "timeout": {"quick": 90, "thorough": 300}},
    {"fn": "h_bmc", "cases": ["%s:d%d" % (o, d) for o in ("first", "second", "junkfirst") for d in range(1, 11)],
     "quick_cases": ["first:d1", "second:d1", "first:d10", "junkfirst:d4"], "timeout": {"quick": 150, "thorough": 400},
     "per_path_timeout": 120},     # (z3 needs up to ~30 s for one 10-digit decimal query; the default per-query limit is 15 s)
    {"fn": "h_id", "cases": ["", "0x"], "timeout": {"quick": 90, "thorough": 300}},
    {"fn": "h_src", "cases": ["q2", "q3", "q0:long", "q0:full32"], "quick_cases": ["q2", "q0:full32"], "timeout": {"quick": 90, "thorough": 300}},
    {"fn": "h_src_exclude", "cases": ["c10"], "timeout": {"quick": 90, "thorough": 300}},
    {"fn": "h_src_exclude_lines", "cases": ["fwd", "rev", "fwd:csv"], "timeout": {"quick": 90, "thorough": 300}},
]
BOUNDS = {"plid / id": "stored and queried ids symbolic over all 32-bit values; 3 prefix spellings x symbolic digit case",
          "bmc id": "stored id symbolic over 0..2^32-1, queried id symbolic per decimal digit count 1..10, queried in decimal",
          "src": "two symbolic characters of the reference code, query of 2 / 3 symbolic characters; exclusion file of 10 "
                 "symbolic characters", "directory": "two logs; the first one's hidden / report flags symbolic"}
ASSUMPTIONS = ["file system, print and argparse replaced by the in-memory world (E1, E2, E4); JSON text by the token (M7)"]
OUTSIDE = ["directories with more than two logs", "look-ups combined with selection options (the statement is silent)"]


def flagsA():
    hid, rep = sym_int("hid", 0, 1), sym_int("rep", 0, 1)
    return hid * 0x4000 + rep * 0x2000 + 0x0800


def hex8(q, lower):
    """8 hex-digit code points of q (symbolic case)"""
    cps = []
    for b in be(q, 4):
        for hi in (True, False):
            d = nib(b, hi)
            cps.append(sym_ite(lower, hexdigit_cp(d, False), hexdigit_cp(d, True)))
    return cps


def contains(hay, needle):
    """needle (list of code points) occurs in hay (list of code points): one boolean"""
    n, m = len(hay), len(needle)
    if m == 0:
        return True
    return sym_any([sym_all([hay[i + j] == needle[j] for j in range(m)]) for i in range(n - m + 1)])


def docs_of(w):
    return [o for o in w.stdout() if hasattr(o, "obj")]


def h_plid() -> bool:
    """
    post: _
    """
    p = sym_int("p", 0, 0xFFFFFFFF)
    q = sym_int("q", 0, 0xFFFFFFFF)
    lower = sym_bool("lower")
    nosrc = CASE.endswith(":nosrc")                # logs without any SRC section (Private + User Header only)
    A = pb.PEL(*([] if nosrc else [pb.SRC()]), ph=dict(eid=0x50000001, plid=p), uh=dict(flags=flagsA()))
    B = pb.PEL(*([pb.UD(b"\x01", comp=0x4321)] if nosrc else [pb.SRC()]), ph=dict(eid=0x50000002, plid=0x50000009))
    query = mkstr([ord(c) for c in CASE.split(":")[0]] + hex8(q, lower))
    w = World(files=[("a_50000001", A), ("b_50000002", B)])
    ns = Namespace(**dict(ARG_DEFAULTS, path="/pels", skip_plugins=True, plID=query))
    try:
        status = run_main(peltool, w, ns)
    except Exception as e:
        return verdict(False, obs={"exception": repr(e)})
    d = docs_of(w)
    conds = [status == 0, len(d) == 1]
    if len(d) == 1:
        keys = list(d[0].obj.keys())
        wantA, wantB = bytes_eq(be(p, 4), be(q, 4)), bytes_eq(be(q, 4), [0x50, 0x00, 0x00, 0x09])
        conds.append(("0x50000001" in keys) == bool(wantA))
        conds.append(("0x50000002" in keys) == bool(wantB))
        conds.append(all(k in ("0x50000001", "0x50000002") for k in keys))
    return verdict(sym_all(conds), obs={"docs": [x.obj for x in d], "stdout": [str(o) for o in w.stdout()]})


def h_bmc() -> bool:
    """
    post: _
    """
    return bmc_body()


def bmc_body():
    order, nd = CASE.split(":")
    nd = int(nd[1:])
    a = sym_int("a", 0, 0xFFFFFFFF)
    q = sym_int("q", 0 if nd == 1 else 10 ** (nd - 1), min(10 ** nd - 1, 0xFFFFFFFF))   # queried id with nd decimal digits
    A = pb.PEL(pb.SRC(), ph=dict(eid=0x50000001, obmc=a), uh=dict(flags=flagsA()))
    B = pb.PEL(pb.SRC(), ph=dict(eid=0x50000002, obmc=8))
    files = [("a_50000001", A), ("b_50000002", B)]
    if order == "second":
        files.reverse()
    elif order == "junkfirst":        # other files in the directory (e.g. the .json files -j writes there) come first
        files = [("a_50000001.50000001.json", b'{\n    "Private Header": {}\n}'), ("notes", b"")] + files
    w = World(files=files)
    ns = Namespace(**dict(ARG_DEFAULTS, path="/pels", skip_plugins=True, bmcID=str(q)))
    try:
        status = run_main(peltool, w, ns)
    except Exception as e:
        return verdict(False, obs={"exception": repr(e)})
    d = docs_of(w)
    conds = [status == 0, len(d) <= 1]
    isA = same_decimal(a, q, nd)
    found = sym_any([isA, q == 8])
    if found:
        conds.append(len(d) == 1)
        if len(d) == 1:
            got = d[0].obj["Private Header"]["Entry Id"]
            okA = sym_all([isA, got == "0x50000001"])
            okB = sym_all([q == 8, got == "0x50000002"])
            conds.append(sym_any([okA, okB]))
            conds.append(numval_eq(d[0].obj["Private Header"]["BMC Event Log Id"], q, 10))
        conds.append("PEL not found" not in w.stdout())
    else:
        conds.append(len(d) == 0 and w.stdout() == ["PEL not found"])
    return verdict(sym_all(conds), obs={"stdout": [str(o) for o in w.stdout()]})


def h_id() -> bool:
    """
    post: _
    """
    q = sym_int("q", 0, 0xFFFFFFFF)
    lower = sym_bool("lower")
    A = pb.PEL(pb.SRC(), ph=dict(eid=0x50000001), uh=dict(flags=flagsA()))
    B = pb.PEL(pb.SRC(), ph=dict(eid=0x5000ABCD))
    names = ["2024010100000000_50000001", "2024010100000001_5000ABCD"]
    w = World(files=[(names[0], A), (names[1], B)])
    ns = Namespace(**dict(ARG_DEFAULTS, path="/pels", skip_plugins=True, pelID=mkstr([ord(c) for c in CASE] + hex8(q, lower))))
    try:
        status = run_main(peltool, w, ns)
    except Exception as e:
        return verdict(False, obs={"exception": repr(e)})
    d = docs_of(w)
    up = hex8(q, False)
    inA, inB = contains([ord(c) for c in names[0]], up), contains([ord(c) for c in names[1]], up)
    conds = [status == 0, len(d) <= 1]
    if inA:
        conds.append(len(d) == 1 and d[0].obj["Private Header"]["Entry Id"] == "0x50000001")
    elif inB:
        conds.append(len(d) == 1 and d[0].obj["Private Header"]["Entry Id"] == "0x5000ABCD")
    else:
        conds.append(len(d) == 0 and w.stdout() == ["PEL not found"])
    return verdict(sym_all(conds), obs={"stdout": [str(o) for o in w.stdout()]})


ALPH = "BD8d1 x"


def h_src() -> bool:
    """
    post: _
    """
    nq = int(CASE[1])
    full32 = CASE.endswith("full32")
    B = pb.PEL(pb.SRC(ascii=b"11002030"), ph=dict(eid=0x50000002))
    if full32:
        # the longest legal query: a complete 32-character reference code field (its last character symbolic)
        code = [ord(x) for x in "BD8DD134 extra text to col 32 !!"]
        A = pb.PEL(pb.SRC(ascii=b"BD8DD134 extra text to col 32 !!"), ph=dict(eid=0x50000001), uh=dict(flags=flagsA()))
        query = "BD8DD134 extra text to col 32 !" + sym_str("q", 1, "!?")
        nq = 32
    else:
        c = sym_str("c", 2, ALPH[:6])                      # two characters of the reference code
        code = [ord(x) for x in "BD8D"] + [ord(c[0]), ord(c[1])] + [ord(x) for x in "34"]
        A = pb.PEL(pb.SRC(ascii=mkbytes(b"BD8D", [ord(c[0]), ord(c[1])], b"34" + b" " * 24)), ph=dict(eid=0x50000001),
                   uh=dict(flags=flagsA()))
        if CASE.endswith("long"):
            query = "B" * 33
        else:
            query = sym_str("q", nq, ALPH[:6])
    w = World(files=[("a_50000001", A), ("b_50000002", B)])
    ns = Namespace(**dict(ARG_DEFAULTS, path="/pels", skip_plugins=True, src=query))
    try:
        status = run_main(peltool, w, ns)
    except Exception as e:
        return verdict(False, obs={"exception": repr(e)})
    d = docs_of(w)
    if CASE.endswith("long"):
        return verdict(isinstance(status, str) and len(d) == 0, obs={"status": status})
    qc = [ord(query[i]) for i in range(nq)]
    wantA = contains(code, qc)
    wantB = contains([ord(x) for x in "11002030"], qc)
    conds = [status == 0, len(d) == 1]
    if len(d) == 1:
        keys = list(d[0].obj.keys())
        conds.append(("0x50000001" in keys) == bool(wantA))
        conds.append(("0x50000002" in keys) == bool(wantB))
        if "0x50000001" in keys:
            conds.append(str_is(d[0].obj["0x50000001"]["SRC"], code))
    return verdict(sym_all(conds), obs={"docs": [x.obj for x in d]})


def h_src_exclude() -> bool:
    """
    post: _
    """
    n = int(CASE[1:])
    content = sym_str("x", n, "BD8123 \n")
    A = pb.PEL(pb.SRC(ascii=b"BD8D1234"), ph=dict(eid=0x50000001), uh=dict(flags=flagsA()))
    B = pb.PEL(pb.SRC(ascii=b"11002030"), ph=dict(eid=0x50000002))
    w = World(files=[("a_50000001", A), ("b_50000002", B)], extra={"/etc/excl": content})
    ns = Namespace(**dict(ARG_DEFAULTS, path="/pels", skip_plugins=True, src_exclude_file="/etc/excl"))
    try:
        status = run_main(peltool, w, ns)
    except Exception as e:
        return verdict(False, obs={"exception": repr(e)})
    d = docs_of(w)
    cc = [ord(content[i]) for i in range(n)]
    exA = contains(cc, [ord(x) for x in "BD8D1234"])
    exB = contains(cc, [ord(x) for x in "11002030"])
    conds = [status == 0, len(d) == 1]
    if len(d) == 1:
        keys = list(d[0].obj.keys())
        conds.append(("0x50000001" in keys) == (not bool(exA)))
        conds.append(("0x50000002" in keys) == (not bool(exB)))
    return verdict(sym_all(conds), obs={"docs": [x.obj for x in d]})


def h_src_exclude_lines() -> bool:
    """
    post: _
    """
    # an exclusion file with several reference codes, the logs in any order: every listed code is excluded
    codes = ["BD8D1002", "BD8D1003", "11002030"]
    inc = [bool(sym_bool("in%d" % i)) for i in range(3)]
    content = "".join(c + "\n" for c, k in zip(codes, inc) if k)
    if CASE.endswith(":csv"):
        # a code is excluded when it occurs in the file text - also comma-separated on one line with a comment
        content = "exclude:" + ",".join(c for c, k in zip(codes, inc) if k) + " # noise"
    files = [("%s_5000000%d" % ("cba"[i] if CASE.startswith("rev") else "abc"[i], i + 1),
              pb.PEL(pb.SRC(ascii=codes[i].encode()), ph=dict(eid=0x50000001 + i))) for i in range(3)]
    w = World(files=files, extra={"/etc/excl": content})
    ns = Namespace(**dict(ARG_DEFAULTS, path="/pels", skip_plugins=True, src_exclude_file="/etc/excl", reverse=bool(sym_bool("reverse"))))
    try:
        status = run_main(peltool, w, ns)
    except Exception as e:
        return verdict(False, obs={"exception": repr(e)})
    d = docs_of(w)
    conds = [status == 0, len(d) == 1]
    if len(d) == 1:
        keys = set(d[0].obj.keys())
        conds.append(keys == {"0x5000000%d" % (i + 1) for i in range(3) if not inc[i]})
    return verdict(sym_all(conds), obs={"docs": [list(x.obj.keys()) for x in d]})
