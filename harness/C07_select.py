"""C07 - selection follows the class / severity / --only rules."""
from vlib.api import *
from pel.peltool.config import Config
from pel.peltool.user_header import UserHeader
from pel.peltool import peltool

FUNCTIONS = ["pel.peltool.peltool.considerPEL", "pel.peltool.peltool.considerPELIfSeverityMatches",
             "pel.peltool.user_header.UserHeader.isHidden", "pel.peltool.user_header.UserHeader.isServiceable"]
GROUPS = [0, 1, 2, 4, 5, 6, 7]
LARGE = ["set:" + "".join(str(g) for g in GROUPS if g not in drop) for drop in ([], [0], [7], [1, 2], [4, 5, 6], [0, 2, 5])]
HARNESSES = [
    {"fn": "h_consider", "cases": ["k:0", "k:1", "k:2", "k:3"] + LARGE, "quick_cases": ["k:0", "k:2", LARGE[0]],
     "timeout": {"quick": 90, "thorough": 600}},
    {"fn": "h_lookup", "cases": [""], "timeout": {"quick": 60, "thorough": 300}},
    {"fn": "h_cli_sev", "cases": ["%s:%d" % (m, t) for m in ("list", "count", "all") for t in (1, 2)], "quick_cases": ["list:2", "count:1"], "timeout": {"quick": 90, "thorough": 300}},
    {"fn": "h_lookup_cli", "cases": ["first:d1", "second:d2"], "quick_cases": ["first:d1"], "timeout": {"quick": 60, "thorough": 300}},
    {"fn": "h_mapping", "cases": ["list:sw", "list:sev", "count:sw6", "all:sw6", "count:sev", "list:twice"], "quick_cases": ["list:sev", "all:sw6", "list:twice"],
     "timeout": {"quick": 90, "thorough": 300}},
]
FUNCTIONS += ["pel.peltool.peltool.main (option -> Config mapping)"]
BOUNDS = {"severity byte": "0..255 (symbolic)", "action flags": "0..65535 (symbolic)",
          "switches": "6 symbolic booleans", "severity groups": "list of k symbolic digits in {0,1,2,4,5,6,7}, k = 0..3"}
ASSUMPTIONS = ["UserHeader constructed directly with symbolic eventSeverity/actionFlags (initialisation skipped)"]
OUTSIDE = ["more than 3 simultaneously chosen severity groups in the symbolic harness (see larger-set cases)"]


def _uh(sev, flags):
    uh = UserHeader(None, 0x5548, 24, 1, 0, 0x2000, "O")
    uh.eventSeverity = sev
    uh.actionFlags = flags
    return uh


def spec(sev, flags, every, serv, nserv, hidden, term, only, groups):
    """independent, branch-free statement of the rules (from the property text)"""
    is_hidden = (flags // 0x4000) % 2 == 1
    report = (flags // 0x2000) % 2 == 1
    svc_act = (flags // 0x8000) % 2 == 1
    is_serv = sym_any([sym_all([sev != 0, report, sym_not(is_hidden)]), sym_all([sev == 0, svc_act])])
    is_term = sev == 0x51
    in_group = sym_any([(sev // 16) == g for g in groups]) if groups else False
    default = sym_all([is_serv, sym_not(is_hidden)])
    # classes: serviceable, non-serviceable, hidden
    in_class = sym_any([sym_all([serv, is_serv]), sym_all([nserv, sym_not(is_serv)]),
                        sym_all([hidden, is_hidden])])
    any_class = serv or nserv or hidden
    any_sev = len(groups) > 0
    if every:
        return True
    if not only:
        return sym_any([default, sym_all([term, is_term]), in_class, in_group])
    chosen = sym_all([any_class or any_sev,
                      in_class if any_class else True,
                      in_group if any_sev else True])
    return sym_any([sym_all([term, is_term]), chosen])


def h_consider() -> bool:
    """
    post: _
    """
    sev = sym_int("sev", 0, 255)
    flags = sym_int("flags", 0, 0xFFFF)
    every, serv, nserv = sym_bool("every"), sym_bool("serv"), sym_bool("nserv")
    hidden, term, only = sym_bool("hidden"), sym_bool("term"), sym_bool("only")
    groups = []
    if CASE.startswith("set:"):
        groups = [int(ch) for ch in CASE[4:]]           # concrete larger sets (4..7 groups)
    else:
        for i in range(int(CASE.split(":")[1])):
            g = sym_int("g%d" % i, 0, 7)
            assume(g != 3)
            groups.append(g)
    cfg = Config()
    cfg.every_pel, cfg.serviceable, cfg.non_serviceable = bool(every), bool(serv), bool(nserv)
    cfg.hidden, cfg.critSysTerm, cfg.only = bool(hidden), bool(term), bool(only)
    cfg.severities = list(groups)
    got = bool(peltool.considerPEL(_uh(sev, flags), cfg))
    want = spec(sev, flags, cfg.every_pel, cfg.serviceable, cfg.non_serviceable, cfg.hidden,
                cfg.critSysTerm, cfg.only, groups)
    return verdict(got == bool(want), obs={"got": got})


def h_lookup() -> bool:
    """
    post: _
    """
    # an id / SRC look-up given without selection options considers every PEL
    sev = sym_int("sev", 0, 255)
    flags = sym_int("flags", 0, 0xFFFF)
    which = sym_int("which", 0, 3)
    cfg = Config()
    if which == 0:
        cfg.plid = "50001A31"
    elif which == 1:
        cfg.src = "BD8D"
    elif which == 2:
        cfg.bmcID = "0"            # what the command line hands over for --bmc-id 0
    else:
        cfg.pelID = "50001A32"
    got = bool(peltool.considerPEL(_uh(sev, flags), cfg))
    return verdict(got, obs={"got": got})


def h_mapping() -> bool:
    """
    post: _
    """
    from vlib.stubs import World, Namespace, ARG_DEFAULTS, run_main, patched
    names = [n for n, _ in sorted(peltool.severityGroupValues.items(), key=lambda kv: kv[1])]
    mode_, dims = CASE.split(":")
    allsw = ("every_pel", "serviceable", "non_serviceable", "hidden", "critSysTerm", "only", "hex", "reverse", "skip_plugins")
    symsw = {"sw": allsw, "sw6": allsw[:6], "sev": (), "twice": ()}[dims]
    sw = {k: (bool(sym_bool(k)) if k in symsw else False) for k in allsw}
    nsev = sym_int("nsev", 0, 2 if dims == "sev" else 0)
    picks = [sym_int("s%d" % i, 0, 6) for i in range(2)]
    sevs = None
    if nsev == 1:
        sevs = [names[int(concrete_choice(picks[0], 7))]]
    elif nsev == 2:
        sevs = [names[int(concrete_choice(picks[0], 7))], names[int(concrete_choice(picks[1], 7))]]
    ns = Namespace(**dict(ARG_DEFAULTS, path="/pels", severities=sevs, extension=None, **sw))
    mode = {"list": "list", "count": "show_pel_count", "all": "all"}[mode_]
    setattr(ns, mode, True)
    seen = []
    fn = {"list": "listOption", "count": "printPELCount", "all": "extractAllPELsData"}[mode_]
    w = World(files=[])
    with patched(peltool, **{fn: lambda path, config: seen.append((path, config))}):
        if dims == "twice":
            # an earlier invocation in the same process (with -S) must not influence this one
            first = Namespace(**dict(ARG_DEFAULTS, path="/pels", severities=[names[int(concrete_choice(picks[0], 7))]], list=True))
            run_main(peltool, World(files=[]), first)
            del seen[:]
        status = run_main(peltool, w, ns)
    conds = [status == 0, len(seen) == 1]
    if len(seen) == 1:
        path, c = seen[0]
        digits = dict(SNAPG)
        conds += [path == "/pels", c.every_pel == sw["every_pel"], c.serviceable == sw["serviceable"],
                  c.non_serviceable == sw["non_serviceable"], c.hidden == sw["hidden"], c.critSysTerm == sw["critSysTerm"],
                  c.only == sw["only"], c.hex == sw["hex"], c.rev == sw["reverse"], c.allow_plugins == (not sw["skip_plugins"]),
                  list(c.severities) == [digits[n] for n in (sevs or [])],
                  c.plid is None and c.src is None and c.bmcID is None and c.pelID is None]
    return verdict(sym_all(conds), obs={"status": status, "calls": len(seen)})


SNAPG = [("Informational", 0), ("Recovered", 1), ("Predictive", 2), ("Unrecoverable", 4), ("Critical", 5),
         ("Diagnostic", 6), ("Symptom", 7)]


def concrete_choice(x, n):
    """value of a small symbolic int, by solver-resolved forks"""
    for cand in range(n):
        if x == cand:
            return cand
    return 0


def h_lookup_cli() -> bool:
    """
    post: _
    """
    # the same sentence through the real command line (--bmc-id N, hidden / non-serviceable log, N includes 0)
    from harness import C10_lookup
    return C10_lookup.bmc_body()


def h_cli_sev() -> bool:
    """
    post: _
    """
    # -S <groups> through the real command line over a directory: every log of a chosen group is selected, whatever
    # its position in the directory and whatever was examined before it
    from vlib.stubs import World, Namespace, ARG_DEFAULTS, run_main
    from vlib import pelbuild as pb
    mode, two = CASE.split(":")
    two = two == "2"
    sevs = [sym_int("sev0", 0, 2), 1, sym_int("sev2", 0, 2)]       # 0 -> 0x10 Recovered, 1 -> 0x40 Unrecoverable, 2 -> 0x61 Diagnostic
    code = lambda s: sym_ite(s == 0, 0x10, sym_ite(s == 1, 0x40, 0x61))
    rev = bool(sym_bool("reverse"))
    # hidden logs: selected only through their severity group
    files = [("f%d_5000000%d" % (i, i + 1), pb.PEL(pb.SRC(), ph=dict(eid=0x50000001 + i), uh=dict(sev=code(sevs[i]), flags=0x6800)))
             for i in range(3)]
    names = ["Unrecoverable", "Recovered"] if two else ["Unrecoverable"]
    opt = dict(severities=names, reverse=rev, skip_plugins=True)
    opt[{"list": "list", "count": "show_pel_count", "all": "all"}[mode]] = True
    w = World(files=files)
    status = run_main(peltool, w, Namespace(**dict(ARG_DEFAULTS, path="/pels", **opt)))
    want = [i for i in range(3) if bool(sym_any([sevs[i] == 1, sym_all([two, sevs[i] == 0])]))]
    want_eids = ["0x5000000%d" % (i + 1) for i in want]
    if rev and mode != "count":
        want_eids.reverse()
    outs = w.stdout()
    conds = [status == 0]
    if mode == "count":
        conds.append(outs == ['{\n    "Number of PELs found": %d\n}' % len(want)])
    elif mode == "list":
        conds.append(len(outs) == 1 and hasattr(outs[0], "obj") and list(outs[0].obj.keys()) == want_eids)
    else:
        conds.append([o.obj["Private Header"]["Entry Id"] for o in outs if hasattr(o, "obj")] == want_eids)
    return verdict(sym_all(conds), obs={"stdout": [str(o)[:50] for o in outs], "want": want_eids})
