"""C07 - selection follows the class / severity / --only rules."""
from vlib.api import *
from pel.peltool.config import Config
from pel.peltool.user_header import UserHeader
from pel.peltool import peltool

FUNCTIONS = ["pel.peltool.peltool.considerPEL", "pel.peltool.peltool.considerPELIfSeverityMatches",
             "pel.peltool.user_header.UserHeader.isHidden", "pel.peltool.user_header.UserHeader.isServiceable"]
GROUPS = [0, 1, 2, 4, 5, 6, 7]
HARNESSES = [
    {"fn": "h_consider", "cases": ["k:0", "k:1", "k:2", "k:3"], "quick_cases": ["k:0", "k:2"],
     "timeout": {"quick": 90, "thorough": 600}},
]
BOUNDS = {"severity byte": "0..255 (symbolic)", "action flags": "0..65535 (symbolic)",
          "switches": "6 symbolic booleans", "severity groups": "list of k symbolic digits in {0,1,2,4,5,6,7}, k = 0..3"}
ASSUMPTIONS = ["UserHeader constructed directly with symbolic eventSeverity/actionFlags (initialisation skipped)"]
OUTSIDE = ["more than 3 simultaneously chosen severity groups in the symbolic harness (see larger-set cases)"]


def _uh(sev, flags):
    uh = UserHeader(None, 0x5548, 24, 1, 0, 0x2000, "O")
    uh.eventSeverity = sev
    uh.actionFlags = flags
    return uh


def spec(sev, flags, every, serv, nserv, hidden, term, only, groups):
    """independent, branch-free statement of the rules (from the property text)"""
    is_hidden = (flags // 0x4000) % 2 == 1
    report = (flags // 0x2000) % 2 == 1
    svc_act = (flags // 0x8000) % 2 == 1
    is_serv = sym_any([sym_all([sev != 0, report, sym_not(is_hidden)]), sym_all([sev == 0, svc_act])])
    is_term = sev == 0x51
    in_group = sym_any([(sev // 16) == g for g in groups]) if groups else False
    default = sym_all([is_serv, sym_not(is_hidden)])
    # classes: serviceable, non-serviceable, hidden
    in_class = sym_any([sym_all([serv, is_serv]), sym_all([nserv, sym_not(is_serv)]),
                        sym_all([hidden, is_hidden])])
    any_class = serv or nserv or hidden
    any_sev = len(groups) > 0
    if every:
        return True
    if not only:
        return sym_any([default, sym_all([term, is_term]), in_class, in_group])
    chosen = sym_all([any_class or any_sev,
                      in_class if any_class else True,
                      in_group if any_sev else True])
    return sym_any([sym_all([term, is_term]), chosen])


def h_consider() -> bool:
    """
    post: _
    """
    sev = sym_int("sev", 0, 255)
    flags = sym_int("flags", 0, 0xFFFF)
    every, serv, nserv = sym_bool("every"), sym_bool("serv"), sym_bool("nserv")
    hidden, term, only = sym_bool("hidden"), sym_bool("term"), sym_bool("only")
    ngroups = int(CASE.split(":")[1]) if CASE.startswith("k:") else 2
    groups = []
    for i in range(ngroups):
        g = sym_int("g%d" % i, 0, 7)
        assume(g != 3)
        groups.append(g)
    cfg = Config()
    cfg.every_pel, cfg.serviceable, cfg.non_serviceable = bool(every), bool(serv), bool(nserv)
    cfg.hidden, cfg.critSysTerm, cfg.only = bool(hidden), bool(term), bool(only)
    cfg.severities = list(groups)
    got = bool(peltool.considerPEL(_uh(sev, flags), cfg))
    want = spec(sev, flags, cfg.every_pel, cfg.serviceable, cfg.non_serviceable, cfg.hidden,
                cfg.critSysTerm, cfg.only, groups)
    return verdict(got == bool(want), obs={"got": got})
