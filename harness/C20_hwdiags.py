"""C20 - hardware-diagnostics signatures and register dumps are decoded field-exactly."""
import io
import json as realjson

from vlib.api import *
from vlib.stubs import FakeJson, patched
from pel.hwdiags import parserdata
from udparsers.oe500 import oe500 as ud
from srcparsers.oe500 import oe500 as srcp

FUNCTIONS = ["ParserData.get_signature/get_chip_desc/get_sig_desc/get_attn_desc/get_reg_data/query_model_ec/_check_hex/_check_int",
             "udparsers.oe500.parseUDToJson/_parse_signature_list/_parse_register_dump/_parse_callout_ffdc/_parse_hb_scratch_regs/"
             "_parse_scratch_reg_sig", "srcparsers.oe500.parseSRCToJson"]

CHIP = {"model_ec": {"id": "20da0020", "type": "proc", "desc": "P10 2.0"},
        "attn_types": {"1": "CS", "3": "RE"},
        "signatures": {"ab12": ["EQ_CORE_FIR", {"4": "bit four text", "255": "last bit"}], "00ff": ["NO_BITS", {}]},
        "registers": {"a1b2c3": ["REG_NAME_THAT_IS_LONGER_THAN_25_CHARS", {"0": "0x20028440", "1": "0x20028480", "2": "0x800C5C0010012C3F"}],
                      "000001": ["SHORT", {}]}}
HARNESSES = [
    {"fn": "h_signature", "cases": ["b%d:%s" % (i, d) for i in range(12) for d in ("nodata", "data")] + ["case:nodata", "case:data"],
     "quick_cases": ["b4:nodata", "b5:nodata", "b6:nodata", "b7:data", "b8:data", "b10:nodata", "b11:data", "case:data", "b0:nodata"],
     "timeout": {"quick": 120, "thorough": 400}},
    {"fn": "h_src", "cases": ["w6", "w7", "w8", "ref"], "quick_cases": ["w6", "ref"], "timeout": {"quick": 120, "thorough": 600}},
    {"fn": "h_src_seq", "cases": ["BC-BD", "BD-BC"], "timeout": {"quick": 120, "thorough": 400}},
    {"fn": "h_siglist", "cases": ["count"], "timeout": {"quick": 120, "thorough": 400}},
    {"fn": "h_regdump", "cases": ["size", "inst", "id", "twochips", "sameid", "zerochip"], "quick_cases": ["size", "inst", "sameid", "zerochip"], "timeout": {"quick": 120, "thorough": 400}},
    {"fn": "h_scratch", "cases": ["regs:v", "regs:k0", "regs:k8", "regs:k15", "sig", "ffdc", "other"], "quick_cases": ["regs:v", "regs:k8", "sig", "ffdc", "other"],
     "timeout": {"quick": 120, "thorough": 400}},
]
BOUNDS = {"signature": "one of the 12 signature bytes symbolic per run (all 256 values), with and without a chip data file; hex "
                       "digit case of all three words symbolic", "src": "SRC words 6, 7, 8 symbolic one at a time (32 bit), the "
                       "reference-code suffix symbolic", "signature list": "0..2 signatures (count symbolic) followed by 3 or 27 further bytes",
          "register dump": "1..3 chips, 0..4 registers, a 64-bit register address; data size symbolic 0..4, register instance and one id byte symbolic"}
ASSUMPTIONS = ["glob / open of the chip data files replaced by an in-memory fixture (E5): one model/EC with partial tables",
               "json.dumps of the result replaced by the token (M7)"]
OUTSIDE = ["all 2^96 signatures jointly", "chip data files other than the fixture", "data sizes above 4"]


class _Glob:
    def __init__(self, on):
        self.on = on

    def glob(self, pat):
        return ["/data/chip.json"] if self.on else []


def env(chipdata, fj=None):
    kw = dict(glob=_Glob(chipdata), open=lambda p, *a, **k: io.StringIO(realjson.dumps(CHIP)))
    return patched(parserdata, **kw)


def dec_cps(v, maxdig=5):
    """decimal code points of v (forks on the digit count; resolved by the implementation's own forks)"""
    for k in range(1, maxdig + 1):
        if v < 10 ** k:
            return [48 + (v // 10 ** i) % 10 for i in reversed(range(k))]
    raise AssertionError


def hexstr(bs, upper=False):
    return [hexdigit_cp(nib(b, h), upper) for b in bs for h in (True, False)]


def expect_signature(b, chipdata):
    """(chip desc, signature, attn) code point lists for the 12 signature bytes b"""
    model = b[0:4]
    chip_pos, node, attn = from_be(b[4:6]), b[6], b[7]
    sig_id, inst, bit = b[8:10], b[10], b[11]
    known = chipdata and bool(sym_all([model[0] == 0x20, model[1] == 0xDA, model[2] == 0x00, model[3] == 0x20]))
    ctype = "proc" if known else "unknown"
    cdesc = [ord(c) for c in "P10 2.0"] if known else hexstr(model, True)
    chip = [ord(c) for c in "node "] + dec_cps(node, 3) + [32] + [ord(c) for c in ctype] + [32] + dec_cps(chip_pos) + [32, 40] + cdesc + [41]
    name, desc = None, ""
    if known:
        if sym_all([sig_id[0] == 0xAB, sig_id[1] == 0x12]):
            name = "EQ_CORE_FIR"
            if bit == 4:
                desc = "bit four text"
            elif bit == 255:
                desc = "last bit"
        elif sym_all([sig_id[0] == 0x00, sig_id[1] == 0xFF]):
            name = "NO_BITS"
    namecp = [ord(c) for c in name] if name else [ord(c) for c in "id:"] + hexstr(sig_id, True)
    sig = namecp + [40] + dec_cps(inst, 3) + [41, 91] + dec_cps(bit, 3) + [93, 32] + [ord(c) for c in desc]
    at = dec_cps(attn, 3)
    if known:
        if attn == 1:
            at = [ord(c) for c in "CS"]
        elif attn == 3:
            at = [ord(c) for c in "RE"]
    return chip, sig, at


BASE = bytes.fromhex("20da0020" "00070301" "ab120104")


def sym_sig(which):
    x = sym_int("x", 0, 255)
    return [x if i == which else BASE[i] for i in range(12)], x


def h_signature() -> bool:
    """
    post: _
    """
    what, d = CASE.split(":")
    chipdata = d == "data"
    if what == "case":
        b = list(BASE)
        ups = [bool(sym_bool("upper%d" % i)) for i in range(3)]
    else:
        b, x = sym_sig(int(what[1:]))
        ups = [False, False, False]
    words = [mkstr(hexstr(b[4 * i:4 * i + 4], ups[i])) for i in range(3)]
    try:
        with env(chipdata):
            out = parserdata.ParserData().get_signature(words[0], words[1], words[2])
    except Exception as e:
        return verdict(False, obs={"exception": repr(e)})
    chip, sig, at = expect_signature(b, chipdata)
    conds = [list(out.keys()) == ["Chip Desc", "Signature", "Attn Type"], str_is(out["Chip Desc"], chip),
             str_is(out["Signature"], sig), str_is(out["Attn Type"], at)]
    return verdict(sym_all(conds), obs={"out": out})


def h_src() -> bool:
    """
    post: _
    """
    b = list(BASE)
    ref = "BD8DE510"
    if CASE == "ref":
        c = sym_str("c", 2, "01a")
        ref = mkstr([ord(x) for x in "BD8DE5"] + [ord(c[0]), ord(c[1])])
    else:
        k = int(CASE[1]) - 6
        w = sym_bytes("w", 4)
        for i in range(4):
            b[4 * k + i] = w[i]
    up = bool(sym_bool("upper"))
    words = [mkstr(hexstr(b[4 * i:4 * i + 4], up)) for i in range(3)]
    fj = FakeJson()
    try:
        with env(False), patched(srcp, json=fj):
            tok = srcp.parseSRCToJson(ref, "00000002", "00000003", "00000004", "00000005", words[0], words[1], words[2], "00000009")
    except Exception as e:
        return verdict(False, obs={"exception": repr(e)})
    out = tok.obj
    chip, sig, at = expect_signature(b, False)
    is_cs = True
    if CASE == "ref":
        is_cs = bool(sym_all([ord(c[0]) == 49, ord(c[1]) == 48]))
    conds = [list(out.keys()) == ["Primary Attention", "Signature Description"],
             out["Primary Attention"] == ("system checkstop" if is_cs else "secondary analysis")]
    sd = out["Signature Description"]
    conds += [str_is(sd["Chip Desc"], chip), str_is(sd["Signature"], sig), str_is(sd["Attn Type"], at)]
    return verdict(sym_all(conds), obs={"out": out})


def h_siglist() -> bool:
    """
    post: _
    """
    n = sym_int("n", 0, 2)
    x = sym_int("x", 0, 255)
    sigs = [list(BASE), [0x20, 0xDA, 0x00, 0x20, 0x12, 0x34, x, 0x03, 0x00, 0xFF, 0x09, 0x07]]
    cnt = 0
    for cand in range(3):
        if n == cand:
            cnt = cand
    data = mkbytes(cnt.to_bytes(4, "big"), *[mkbytes(*[[v] for v in s]) for s in sigs[:cnt]])
    # bytes after the announced signatures (padding, or a fixed-size buffer with stale contents) are not signatures
    data = mkbytes(data, b"\xEE" * 3 if bool(sym_bool("short_pad")) else bytes(14) + b"\x20\xDA\x00\x20" + bytes(9))
    fj = FakeJson()
    try:
        with env(True), patched(ud, json=fj):
            tok = ud.parseUDToJson(1, 1, memoryview(data))
    except Exception as e:
        return verdict(False, obs={"exception": repr(e)})
    lst = tok.obj.get("Signature List")
    conds = [list(tok.obj.keys()) == ["Signature List"], isinstance(lst, list) and len(lst) == cnt]
    if isinstance(lst, list) and len(lst) == cnt:
        for got, s in zip(lst, sigs):
            chip, sig, at = expect_signature(s, True)
            conds += [str_is(got["Chip Desc"], chip), str_is(got["Signature"], sig), str_is(got["Attn Type"], at)]
    return verdict(sym_all(conds), obs={"out": tok.obj})


def regline(model_known, rid, inst, data_bytes, chipdata):
    """expected register line"""
    name, addr = None, 0
    rid_hex = hexstr(rid, True)
    if chipdata and model_known:
        if sym_all([rid[0] == 0xA1, rid[1] == 0xB2, rid[2] == 0xC3]):
            name = "REG_NAME_THAT_IS_LONGER_THAN_25_CHARS"
            if inst == 0:
                addr = 0x20028440
            elif inst == 1:
                addr = 0x20028480
            elif inst == 2:
                addr = 0x800C5C0010012C3F            # an indirect (64-bit) address is shown in full
        elif sym_all([rid[0] == 0x00, rid[1] == 0x00, rid[2] == 0x01]):
            name = "SHORT"
    if name is None:
        ncp = [ord(c) for c in "id:"] + rid_hex + [ord(c) for c in " inst:"] + dec_cps(inst, 3)
    else:
        ncp = [ord(c) for c in name]
    ncp = (ncp + [32] * 25)[:25]
    hx = hexstr(data_bytes, True)
    chunks = []
    for i in range(0, len(hx), 4):
        if i:
            chunks.append(32)
        chunks += hx[i:i + 4]
    return [32, 32] + ncp + [32, 40] + [ord(c) for c in "0x%08X" % addr] + [41, 32] + chunks


def chipline(model, node, pos, known):
    txt = [ord(c) for c in "node "] + dec_cps(node, 3) + [32] + [ord(c) for c in ("proc" if known else "unknown")] + [32] + dec_cps(pos) \
        + [32, 40] + ([ord(c) for c in "P10 2.0"] if known else hexstr(model, True)) + [41, 32]
    return txt + [42] * max(0, 60 - len(txt))


def h_regdump() -> bool:
    """
    post: _
    """
    model = [0x20, 0xDA, 0x00, 0x20]
    inst, size, idb = 1, 4, 0xC3
    if CASE == "size":
        size = sym_int("size", 1, 4)
    elif CASE == "inst":
        inst = sym_int("inst", 0, 255)
    elif CASE == "id":
        idb = sym_int("idb", 0, 255)
    payload = [0xDE, 0xAD, 0xBE, 0xEF]
    sz = 4
    for cand in range(5):
        if size == cand:
            sz = cand
    regs1 = [([0xA1, 0xB2, idb], inst, payload[:sz]), ([0x00, 0x00, 0x01], 0, [0x11, 0x22])]
    if CASE == "sameid":
        # the same register id twice on one chip, with different instances
        i2 = sym_int("inst2", 0, 255)
        regs1 = [([0xA1, 0xB2, 0xC3], 0, [0x01]), ([0xA1, 0xB2, 0xC3], i2, [0x02]), ([0x77, 0x88, 0x99], 5, [0x03]), ([0x77, 0x88, 0x99], i2, [0x04])]
    chips = [(model, 0x0007, 0x03, regs1)]
    if CASE == "zerochip":
        # a chip without captured registers, followed by another chip
        x = sym_int("x", 0, 255)
        chips = [(model, 0x0007, 0x03, []), ([0x12, 0x34, 0x56, x], 0x0102, 0x01, [([0xA1, 0xB2, 0xC3], 0, [x])]), (model, 0x0008, 0x00, regs1)]
    if CASE == "twochips":
        x = sym_int("x", 0, 255)
        chips.append(([0x12, 0x34, 0x56, x], 0x0102, 0x01, [([0xA1, 0xB2, 0xC3], 0, [x])]))
    parts = [len(chips).to_bytes(4, "big")]
    for m, pos, node, regs in chips:
        parts += [m, pos.to_bytes(2, "big"), [node], len(regs).to_bytes(4, "big")]
        for rid, ri, dat in regs:
            parts += [rid, [ri], [len(dat)], dat]
    flat = []
    for p in parts:
        flat += list(p)
    # 0..2 bytes behind the last register: the dump may end exactly on the last byte of the section
    tail = sym_int("tail", 0, 2)
    data = None
    for cand in range(3):
        if tail == cand:
            data = mkbytes(*[[v] for v in flat], b"\xEE" * cand)
    fj = FakeJson()
    try:
        with env(True), patched(ud, json=fj):
            tok = ud.parseUDToJson(2, 1, memoryview(data))
    except Exception as e:
        return verdict(False, obs={"exception": repr(e)})
    dump = tok.obj.get("Register Dump")
    exp = []
    for m, pos, node, regs in chips:
        known = bool(sym_all([m[0] == 0x20, m[1] == 0xDA, m[2] == 0x00, m[3] == 0x20]))
        exp.append(chipline(m, node, pos, known))
        for rid, ri, dat in regs:
            exp.append(regline(known, rid, ri, dat, True))
    conds = [isinstance(dump, list) and len(dump) == len(exp)]
    if isinstance(dump, list) and len(dump) == len(exp):
        for g, e in zip(dump, exp):
            conds.append(str_is(g, e))
    return verdict(sym_all(conds), obs={"dump": dump})


def h_scratch() -> bool:
    """
    post: _
    """
    try:
        return _scratch()
    except HarnessSkip:
        raise
    except Exception as e:          # the decoders must not raise on these well-formed sections
        return verdict(False, obs={"exception": repr(e)})


class HarnessSkip(Exception):
    pass


def _scratch():
    fj = FakeJson()
    if CASE.startswith("regs"):
        # (the addresses are dictionary keys: a symbolic key is hashed, i.e. enumerated - one key byte per run)
        base = bytes.fromhex("00050038" "11223344" "00000000000f0040" "8877665544332211")
        if CASE == "regs:v":
            v1, v2 = sym_bytes("v1", 4), sym_bytes("v2", 8)
            w = mkbytes(base[:4], v1, base[8:16], v2)
        else:
            k = int(CASE.split(":k")[1])
            kb = sym_bytes("kb", 1)
            w = mkbytes(base[:k], kb, base[k + 1:])
        with patched(ud, json=fj):
            tok = ud.parseUDToJson(4, 1, memoryview(mkbytes(w, b"\xEE")))
        out = tok.obj.get("Hostboot Scratch Registers", {})
        ks, vs = list(out.keys()), list(out.values())
        hx = lambda a, b_: [48, 120] + hexstr([w[i] for i in range(a, b_)])
        # two address -> value pairs (when both addresses render equal the mapping has one entry: excluded)
        assume(sym_not(sym_all([w[8 + i] == 0 for i in range(4)] + [w[12 + i] == w[i] for i in range(4)])))
        conds = [len(ks) == 2]
        if len(ks) == 2:
            conds += [str_is(ks[0], hx(0, 4)), str_is(vs[0], hx(4, 8)), str_is(ks[1], hx(8, 16)), str_is(vs[1], hx(16, 24))]
        return verdict(sym_all(conds), obs={"out": out})
    if CASE == "sig":
        w = sym_bytes("w", 8)
        with patched(ud, json=fj):
            tok = ud.parseUDToJson(5, 1, memoryview(mkbytes(w)))
        out = tok.obj.get("Scratch Register Error Signature", {})
        conds = [list(out.keys()) == ["Chip ID", "Signature ID"], str_is(out.get("Chip ID", ""), [48, 120] + hexstr([w[i] for i in range(4)])),
                 str_is(out.get("Signature ID", ""), [48, 120] + hexstr([w[i] for i in range(4, 8)]))]
        return verdict(sym_all(conds), obs={"out": out})
    if CASE == "ffdc":
        n = sym_int("nul", 0, 2)
        # (raw non-ASCII UTF-8 in the section text: the values come back as encoded, not as mojibake)
        doc = {"Callout List": [{"Priority": "H", "Unit": "proc0", "Note": "85\u00b0C \u00fcber"}], "n": 3}
        payload = None
        for cand in range(3):
            if n == cand:
                payload = realjson.dumps(doc, ensure_ascii=False).encode("utf-8") + b"\0" * cand
        with patched(ud, json=fj):
            tok = ud.parseUDToJson(3, 1, memoryview(payload))
        return verdict(tok.obj == {"Callout List FFDC": doc}, obs={"out": tok.obj})
    sub = sym_int("sub", 6, 255)
    with patched(ud, json=fj):
        tok = ud.parseUDToJson(sub, 1, memoryview(b"\x01\x02"))
    return verdict(tok == "null", obs={"out": str(tok)})


def h_src_seq() -> bool:
    """
    post: _
    """
    # the hw-diags SRC parser is reached through the BMC SRC dispatcher (srcparsers.osrc) for component E5 - also when
    # a hostboot-type (BC..) SRC of the same component was decoded before or after it in the same process
    from srcparsers.osrc import osrc
    w = sym_bytes("w", 1)
    b = list(BASE)
    b[6] = w[0]
    words = [mkstr(hexstr(b[4 * i:4 * i + 4], True)) for i in range(3)]
    fj = FakeJson()
    order = CASE.split("-")
    outs = {}
    try:
        with env(False), patched(srcp, json=fj), patched(osrc, json=fj):
            for kind in order:
                ref = ("BC8AE540" if kind == "BC" else "BD8DE510").ljust(32)
                outs[kind] = osrc.parseSRCToJson(ref, "00000002", "00000003", "00000004", "00000005", words[0], words[1], words[2], "00000009")
    except Exception as e:
        return verdict(False, obs={"exception": repr(e)})
    chip, sig, at = expect_signature(b, False)
    bd = outs["BD"]
    conds = [hasattr(bd, "obj"), outs["BC"] == "null"]         # no hostboot SRC parser is installed in this tree
    if hasattr(bd, "obj"):
        sd = bd.obj.get("Signature Description", {})
        conds += [bd.obj.get("Primary Attention") == "system checkstop", str_is(sd.get("Chip Desc", ""), chip),
                  str_is(sd.get("Signature", ""), sig), str_is(sd.get("Attn Type", ""), at)]
    return verdict(sym_all(conds), obs={"BD": getattr(bd, "obj", str(bd)), "BC": str(outs["BC"])})
