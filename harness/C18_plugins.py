"""C18 - parser modules are chosen by creator/component, fed the right data, contained."""
from collections import OrderedDict

from vlib.api import *
from vlib import pelbuild as pb
from vlib.stubs import FakeJson, FakeImporter, SymDict, patched, World, Namespace, ARG_DEFAULTS, run_main
from pel import hexdump as hd
from pel.datastream import DataStream
from pel.peltool import peltool, user_data, ext_user_data, parse_user_data, src as srcmod, default as defmod
from pel.peltool.config import Config
from srcparsers.osrc import osrc
from udparsers.m2c00 import m2c00
from io_drawer import drawer_type

FUNCTIONS = ["ParseUserData.parse/parseCustom", "SRC.parse/toJSON/getProcedureDesc/getCallouts", "osrc.parseSRCToJson",
             "m2c00.parseUDToJson/_get_drawer_type/_parse_*", "peltool.parsePEL (containment)"]
WORDS = (0x020000F0, 0x2B2C0000, 0x11223344, 0x21000000, 0xAABBCCDD, 0x12345678, 0x9ABCDEF0, 0x0F1E2D3C)

HARNESSES = [
    {"fn": "h_ud_name", "cases": ["UD", "ED"], "timeout": {"quick": 90, "thorough": 300}},
    {"fn": "h_src_args", "cases": ["w%d" % i for i in range(8)] + ["wc", "creator", "ascii", "wc:after9"], "quick_cases": ["w0", "w7", "wc", "creator", "wc:after9"],
     "timeout": {"quick": 90, "thorough": 300}},
    {"fn": "h_osrc", "cases": ["comp", "kind", "absent"], "timeout": {"quick": 90, "thorough": 300}},
    {"fn": "h_osrc_seq", "cases": ["BC-BD", "BD-BC", "BD-BD"], "timeout": {"quick": 90, "thorough": 300}},
    {"fn": "h_m2c00", "cases": ["route", "empty"], "timeout": {"quick": 90, "thorough": 300}},
    {"fn": "h_contain", "cases": ["ud:%d" % b for b in (2, 3, 4, 5, 6, 7)] + ["src:%d" % b for b in (2, 3, 4, 5, 6, 8)] + ["callout:%d" % b for b in (2, 4, 6)],
     "quick_cases": ["ud:4", "ud:6", "ud:7", "src:2", "src:4", "src:5", "callout:4"], "timeout": {"quick": 120, "thorough": 400}},
    {"fn": "h_disabled", "cases": ["", "main:f", "main:a", "main:i", "main:l", "main:j"], "timeout": {"quick": 90, "thorough": 300}},
]
BOUNDS = {"names": "creator letter (either case) and 16-bit component id symbolic", "src arguments": "each hex word symbolic in turn "
          "(32 bit), word count 1..9, creator letter, two reference-code characters",
          "osrc": "reference-code characters 5-6 symbolic over hex digits / letters; BC prefix; module absent",
          "m2c00": "sub-type and version symbolic over 0..255", "containment": "one PEL with SRC (+ procedure callout), two "
          "user-data sections served by the same plugin, one extended user-data section; misbehaviour of one plugin per case"}
ASSUMPTIONS = ["importlib.import_module replaced by a recorder returning fixture modules (E3); import caches replaced by "
               "association lists", "json replaced by the token (M7)", "io_drawer decoders replaced by recorders in h_m2c00 (E6)"]
OUTSIDE = ["plugins that return syntactically invalid JSON text", "real module import side effects"]


class env:
    def __init__(self, behaviour=0, present=lambda name: True, bad=None):
        self.fj = FakeJson()
        self.imp = FakeImporter(self.fj, behaviour=0, present=present)
        self.imp.bad = bad
        self.imp.bad_behaviour = behaviour
        outer = self

        class _Imp:
            def import_module(self, name, package=None):
                m = outer.imp.import_module(name)
                return m
        self.ctx = [patched(user_data, json=self.fj), patched(ext_user_data, json=self.fj), patched(defmod, json=self.fj),
                    patched(parse_user_data, json=self.fj, importlib=self.imp, userDataParsers=SymDict()),
                    patched(srcmod, json=self.fj, importlib=self.imp, srcParsers=SymDict(), calloutParsers=SymDict()),
                    patched(osrc, json=self.fj, importlib=self.imp, osrcParsers=SymDict()),
                    patched(peltool, json=self.fj, prettyPrint=lambda t, *a, **k: t)]

    def __enter__(self):
        for c in self.ctx:
            c.__enter__()
        return self

    def __exit__(self, *a):
        for c in reversed(self.ctx):
            c.__exit__(*a)
        return False


def decode(data, creator="O", plugins=True):
    s = DataStream(data, byte_order="big", is_signed=False)
    out = OrderedDict()
    sid, slen, ver, sub, comp = peltool.parseHeader(s)
    cfg = Config()
    cfg.allow_plugins = plugins
    peltool.sectionFun(s, out, sid, slen, ver, sub, comp, creator, cfg)
    name = list(out.keys())[0]
    return name, out[name], s.index


def letter(name):
    x = sym_int(name, 0, 51)
    return sym_ite(x < 26, 65 + x, 97 + (x - 26))


def lower_cp(c):
    return sym_ite(sym_all([c >= 65, c <= 90]), c + 32, c)


def h_ud_name() -> bool:
    """
    post: _
    """
    cr = letter("creator")
    comp = sym_int("comp", 0, 0xFFFF)
    sub, ver = sym_int("sub", 0, 255), sym_int("ver", 0, 255)
    assume(sym_not(sym_all([cr == ord("O"), comp == 0x2000])))
    payload = b"\x10\x20\x30\x00\x00"          # (ends in zero bytes: the parser receives them too)
    if CASE == "UD":
        data, creator = pb.flat(pb.UD(payload, ver=ver, sub=sub, comp=comp)), chr(cr)
    else:
        data, creator = pb.flat(pb.ED(payload, creator=cr, ver=ver, sub=sub, comp=comp)), "O"
    try:
        with env() as e:
            name, out, used = decode(data, creator)
    except Exception as ex:
        return verdict(False, obs={"exception": repr(ex)})
    nm = [lower_cp(cr)] + [hexdigit_cp(nib(b, h), False) for b in be(comp, 2) for h in (True, False)]
    exp = [ord(c) for c in "udparsers."] + nm + [46] + nm
    conds = [len(e.imp.requested) == 1, len(e.imp.calls) == 1]
    if len(e.imp.requested) == 1 and len(e.imp.calls) == 1:
        c = e.imp.calls[0]
        conds += [str_is(e.imp.requested[0], exp), c.kind == "UD", c.args[0] == sub, c.args[1] == ver,
                  bytes(c.args[2]) == payload, out.get("Plugin") is not None]
    return verdict(sym_all(conds), obs={"requested": e.imp.requested})


def h_src_args() -> bool:
    """
    post: _
    """
    words = list(WORDS)
    wc, creator, ascii = 9, "O", b"BD8D1234"
    if CASE[0] == "w" and CASE[1:].isdigit():
        i = int(CASE[1:])
        words[i] = sym_int("x", 0, 0xFFFFFFFF)
    elif CASE.startswith("wc"):
        wc = sym_int("wc", 1, 9)
    elif CASE == "creator":
        creator = chr(letter("creator"))
    else:
        w2 = sym_bytes("a", 2, 0x21, 0x7E)
        ascii = mkbytes(b"BD", w2, b"1234" + b" " * 24)
    data = pb.flat(pb.SRC(words=words, wc=wc, ascii=ascii))
    try:
        with env() as e:
            if CASE == "wc:after9":
                # history: an SRC with all 9 words was decoded (and handed to its parser) just before
                decode(pb.flat(pb.SRC(words=(0xF0F0F0F0,) * 8, wc=9, ascii=b"BD8D9999")), creator)
                del e.imp.requested[:]
                del e.imp.calls[:]
            name, out, used = decode(data, creator)
    except Exception as ex:
        return verdict(False, obs={"exception": repr(ex)})
    cl = lower_cp(ord(creator[0])) if is_sym(creator) or True else None
    expmod = [ord(c) for c in "srcparsers."] + [lower_cp(ord(creator))] + [ord(c) for c in "src."] + [lower_cp(ord(creator))] + [ord(c) for c in "src"]
    cached = CASE == "wc:after9"          # the module was imported (and cached) by the first decode
    conds = [len(e.imp.requested) == (0 if cached else 1), len(e.imp.calls) == 1]
    if len(e.imp.calls) == 1 and (cached or len(e.imp.requested) == 1):
        c = e.imp.calls[0]
        conds += [cached or str_is(e.imp.requested[0], expmod), c.kind == "SRC", len(c.args) == 9]
        if len(c.args) == 9:
            # reference code, then hex words 2..9 in order; words beyond the valid count are zero
            if CASE == "ascii":
                conds.append(str_is(c.args[0], [66, 68, w2[0], w2[1]] + list(b"1234") + [32] * 24))
            else:
                conds.append(c.args[0] == "BD8D1234".ljust(32))
            for k in range(8):
                valid = (k + 2) <= wc
                want = words[k]
                if bool(valid):
                    conds.append(numval_eq(c.args[1 + k], want, 16))
                    conds.append(len(c.args[1 + k]) == 8)
                else:
                    conds.append(c.args[1 + k] == "00000000")
        conds.append(out.get("SRC Details") == {"Plugin": "x", "Kind": "SRC"} or "SRC Details" in out)
    return verdict(sym_all(conds), obs={"requested": e.imp.requested})


HEXCH = "0123456789ABCDEFabcdef"


def h_osrc() -> bool:
    """
    post: _
    """
    if CASE == "comp":
        c = sym_str("c", 2, "09AFaf5E")
        ref = mkstr([ord(x) for x in "BD8D"] + [ord(c[0]), ord(c[1])] + [ord(x) for x in "10"] + [32] * 24)
        exp = [111, lower_cp(ord(c[0])), lower_cp(ord(c[1])), 48, 48]
    elif CASE == "kind":
        k = sym_str("k", 2, "BCD1")
        ref = mkstr([ord(k[0]), ord(k[1])] + [ord(x) for x in "8AE510"] + [32] * 24)
        exp = None
    else:
        ref = "BD8DE510".ljust(32)
        exp = [ord(x) for x in "oe500"]
    present = CASE != "absent"
    try:
        with env(present=lambda name: present) as e:
            outtxt = osrc.parseSRCToJson(ref, "00000001", "00000002", "00000003", "00000004", "00000005", "00000006",
                                         "00000007", "00000008")
            val = e.fj.loads(outtxt)
            # second call: the cache must give the same answer without a second import
            outtxt2 = osrc.parseSRCToJson(ref, "00000001", "00000002", "00000003", "00000004", "00000005", "00000006",
                                          "00000007", "00000008")
            val2 = e.fj.loads(outtxt2)
    except Exception as ex:
        return verdict(False, obs={"exception": repr(ex)})
    conds = [len(e.imp.requested) == 1, doc_eq(val, val2)]
    if len(e.imp.requested) == 1:
        req = e.imp.requested[0]
        if CASE == "kind":
            isbc = sym_all([ord(k[0]) == 66, ord(k[1]) == 67])
            if isbc:
                conds.append(req == "srcparsers.bsrc.bsrc")
            else:
                conds.append(req == "srcparsers.oe500.oe500")
        else:
            conds.append(str_is(req, [ord(x) for x in "srcparsers."] + exp + [46] + exp))
    if present:
        conds += [len(e.imp.calls) == 2, isinstance(val, dict)]
        if len(e.imp.calls) == 2:
            a = e.imp.calls[0].args
            conds += [len(a) == 9, doc_eq(a[0], ref), list(a[1:]) == ["0000000%d" % i for i in range(1, 9)]]
    else:
        conds += [e.imp.calls == [], val is None]
    return verdict(sym_all(conds), obs={"requested": e.imp.requested})


def h_m2c00() -> bool:
    """
    post: _
    """
    sub, ver = sym_int("sub", 0, 255), sym_int("ver", 0, 255)
    data = memoryview(b"\x01\x02\x03\x04\x05\x06\x07\x08\x09") if CASE == "route" else memoryview(b"")
    rec = []
    fj = FakeJson()
    with patched(m2c00, json=fj, parse_hlog_data=lambda d, f: rec.append(("hlog", bytes(d), f)) or ["H"],
                 parse_ilog_data=lambda d, f: rec.append(("ilog", bytes(d), f)) or ["I"],
                 parse_trace_data=lambda d, f: rec.append(("trace", bytes(d), f)) or ["T"]):
        try:
            txt = m2c00.parseUDToJson(sub, ver, data)
        except Exception as ex:
            return verdict(False, obs={"exception": repr(ex)})
    val = fj.loads(txt)
    conds = [isinstance(val, dict)]
    kind = None
    if sub == 72:
        kind = ("hlog", "History Log", "H")
    elif sub == 73:
        kind = ("ilog", "ILOG", "I")
    elif sub == 84:
        kind = ("trace", "Trace", "T")
    files = {1: ("mex_pte.h", "mexStringFile"), 2: ("nimitz_pte.h", "nimitzStringFile")}
    if kind is None:
        conds += [rec == [], val == {"Data": hd.hexdump(data) if len(data) else []}]
    elif len(data) == 0:
        conds += [rec == [], val == {kind[1]: []}]
    else:
        known = None
        if ver == 1:
            known = files[1]
        elif ver == 2:
            known = files[2]
        if known is None:
            conds += [rec == [], list(val.keys()) == ["Error", "Data"], val.get("Data") == hd.hexdump(data)]
        else:
            fn = known[1] if kind[0] == "trace" else known[0]
            conds += [len(rec) == 1, val == {kind[1]: [kind[2]]}]
            if len(rec) == 1:
                conds += [rec[0][0] == kind[0], rec[0][1] == bytes(data), rec[0][2].endswith("/io_drawer/" + fn)]
    return verdict(sym_all(conds), obs={"val": val, "rec": [(r[0], r[2]) for r in rec]})


def _pel():
    co = pb.callouts_subsection([pb.callout(loc=b"Ufcs-P1\0", fru=pb.fru_identity(0x42, pn=b"BMC0001"))])
    return pb.PEL(pb.SRC(flags=1, callouts=co), pb.UD(b"\x01\x02\x03", comp=0x0777, sub=1), pb.UD(b"\x04\x05", comp=0x0777, sub=2),
                  pb.ED(b"\x06\x07", creator=ord("B"), comp=0x0888), ph=dict(creator=ord("B")))


class _Selective(FakeImporter):
    """fixture importer in which exactly one (module kind, call number) misbehaves"""
    def __init__(self, fj, bad_kind, bad_behaviour, bad_call=0):
        FakeImporter.__init__(self, fj)
        self.bad_kind, self.bad_behaviour, self.bad_call = bad_kind, bad_behaviour, bad_call
        self.n = {"UD": 0, "SRC": 0, "CALLOUT": 0}

    def import_module(self, name, package=None):
        mod = FakeImporter.import_module(self, name)
        outer = self

        class _M:
            __name__ = name

            def _wrap(self_, kind, fn, *a):
                outer.n[kind] += 1
                if kind == outer.bad_kind and outer.n[kind] - 1 == outer.bad_call:
                    outer.behaviour = outer.bad_behaviour
                else:
                    outer.behaviour = 0
                try:
                    return fn(*a)
                finally:
                    outer.behaviour = 0

            def parseUDToJson(self_, *a):
                return self_._wrap("UD", mod.parseUDToJson, *a)

            def parseSRCToJson(self_, *a):
                return self_._wrap("SRC", mod.parseSRCToJson, *a)

            def getMaintProcDesc(self_, *a):
                return self_._wrap("CALLOUT", mod.getMaintProcDesc, *a)
        return _M()


def _full(bad_kind=None, bad_behaviour=0):
    e = env()
    imp = _Selective(e.fj, bad_kind, bad_behaviour)
    e.ctx[3] = patched(parse_user_data, json=e.fj, importlib=imp, userDataParsers=SymDict())
    e.ctx[4] = patched(srcmod, json=e.fj, importlib=imp, srcParsers=SymDict(), calloutParsers=SymDict())
    cfg = Config()
    cfg.every_pel = True
    with e:
        eid, tok = peltool.parsePEL(DataStream(_pel(), byte_order="big", is_signed=False), cfg, False)
    return tok.obj, imp


def h_contain() -> bool:
    """
    post: _
    """
    kind, b = CASE.split(":")
    b = int(b)
    x = sym_int("x", 0, 1)       # (keeps the harness symbolic: the plugin's misbehaviour is chosen per case)
    try:
        good, _ = _full()
        bad, imp = _full({"ud": "UD", "src": "SRC", "callout": "CALLOUT"}[kind], b)
    except Exception as ex:
        return verdict(False, obs={"exception": repr(ex)})
    conds = [list(bad.keys()) == list(good.keys())]
    affected = {"ud": "User Data 0", "src": "Primary SRC", "callout": "Primary SRC"}[kind]
    for k in good:
        if k != affected:
            conds.append(k in bad and bad[k] == good[k])
    if kind == "ud":
        sec = bad.get(affected, {})
        conds += ["Data" in sec and hd.parse(sec["Data"]) == b"\x01\x02\x03", "Error" in sec, "Plugin" not in sec]
        conds.append(imp.n["UD"] == 3)       # the later sections were still handed to their parser
    elif kind == "src":
        sec, gsec = bad.get(affected, {}), good[affected]
        conds.append("SRC Details" not in sec)
        conds.append({k: v for k, v in gsec.items() if k != "SRC Details"} == dict(sec))
    else:
        sec, gsec = bad.get(affected, {}), good[affected]
        c0 = sec["Callout Section"]["Callouts"][0]
        g0 = gsec["Callout Section"]["Callouts"][0]
        conds.append("Description" not in c0)
        conds.append({k: v for k, v in g0.items() if k != "Description"} == dict(c0))
        conds.append(sec.get("SRC Details") == gsec.get("SRC Details"))
    return verdict(sym_all(conds), obs={"bad": bad.get(affected), "calls": imp.n})


def h_disabled() -> bool:
    """
    post: _
    """
    cr = letter("creator")
    e = env()
    cfg = Config()
    cfg.every_pel = True
    cfg.allow_plugins = False
    co = pb.callouts_subsection([pb.callout(loc=b"Ufcs-P1\0", fru=pb.fru_identity(0x42, pn=b"BMC0001"))])
    pel = pb.PEL(pb.SRC(flags=1, callouts=co), pb.UD(b"\x01\x02\x03", comp=0x0777), pb.ED(b"\x06\x07", creator=cr, comp=0x0888),
                 pb.UD(b"\x01", comp=0xE500), pb.UD(b"\x05\x06", sub=4, comp=0x2000), ph=dict(creator=cr))
    if CASE.startswith("main"):
        # the real command line path: -P together with every way of naming what to decode
        mode = CASE.split(":")[1]
        pel = pb.PEL(pb.SRC(flags=1, callouts=co), pb.UD(b"\x01\x02\x03", comp=0x0777), pb.ED(b"\x06\x07", creator=cr, comp=0x0888),
                     pb.UD(b"\x01", comp=0xE500), pb.UD(b"\x05\x06", sub=4, comp=0x2000), ph=dict(creator=cr, eid=0x50000001), uh=dict(sev=0x40, flags=0x8000))
        w = World(files=[("a_50000001", pel)], dirs=["/out"])
        opts = {"f": dict(file="/pels/a_50000001"), "a": dict(path="/pels", all=True), "i": dict(path="/pels", pelID="0x50000001"),
                "l": dict(path="/pels", list=True), "j": dict(path="/pels", json=True, output_dir="/out")}[mode]
        ns = Namespace(**dict(ARG_DEFAULTS, skip_plugins=True, every_pel=True, **opts))
        try:
            with e:
                status = run_main(peltool, w, ns, fj=e.fj)
        except Exception as ex:
            return verdict(False, obs={"exception": repr(ex)})
        docs = [o.obj for o in w.stdout() if hasattr(o, "obj")] + [ev[2].obj for ev in w.events if ev[0] == "write" and hasattr(ev[2], "obj")]
        conds = [status in (0, None), e.imp.requested == [], e.imp.calls == [], len(docs) == 1]
        if len(docs) == 1 and mode != "l":
            doc = docs[0]
            raw = lambda sec: hd.parse(doc.get(sec, {}).get("Data") or []) if isinstance(doc.get(sec, {}).get("Data"), list) else None
            conds += ["SRC Details" not in doc.get("Primary SRC", {}), raw("User Data 0") == b"\x01\x02\x03",
                      raw("Extended User Data") == b"\x06\x07"]
        return verdict(sym_all(conds), obs={"requested": e.imp.requested, "status": status})
    try:
        with e:
            eid, tok = peltool.parsePEL(DataStream(pel, byte_order="big", is_signed=False), cfg, False)
    except Exception as ex:
        return verdict(False, obs={"exception": repr(ex)})
    doc = tok.obj
    conds = [e.imp.requested == [], e.imp.calls == [], "SRC Details" not in doc["Primary SRC"],
             "Description" not in doc["Primary SRC"]["Callout Section"]["Callouts"][0],
             hd.parse(doc["User Data 0"]["Data"]) == b"\x01\x02\x03", hd.parse(doc["Extended User Data"]["Data"]) == b"\x06\x07"]
    return verdict(sym_all(conds), obs={"requested": e.imp.requested})


def h_osrc_seq() -> bool:
    """
    post: _
    """
    # two BMC-created SRCs in one process: the sub-parser is chosen per reference code, not per first use
    c = sym_str("c", 2, "E5A1")
    kinds = CASE.split("-")
    refs = [mkstr([ord(x) for x in k + "8D"] + [ord(c[0]), ord(c[1])] + [ord(x) for x in "10"] + [32] * 24) for k in kinds]
    bsrc_present = bool(sym_bool("bsrc_installed"))
    name = [111, lower_cp(ord(c[0])), lower_cp(ord(c[1])), 48, 48]
    try:
        with env(present=lambda n: bsrc_present or bool(sym_not(str_eq(n, "srcparsers.bsrc.bsrc")))) as e:
            vals = [e.fj.loads(osrc.parseSRCToJson(r, "1", "2", "3", "4", "5", "6", "7", "8")) for r in refs]
    except Exception as ex:
        return verdict(False, obs={"exception": repr(ex)})
    conds = []
    for k, v in zip(kinds, vals):
        if k == "BC":
            conds.append((v is not None and v.get("Plugin") == "srcparsers.bsrc.bsrc") if bsrc_present else v is None)
        else:
            conds.append(v is not None and str_is(v.get("Plugin"), [ord(x) for x in "srcparsers."] + name + [46] + name))
    return verdict(sym_all(conds), obs={"requested": e.imp.requested, "vals": vals})
