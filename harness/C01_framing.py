"""C01 - every PEL section is decoded once, in order, from exactly its own bytes.

F1 cursor harnesses (h_cursor, h_src_cursor): a DataStream positioned on one section of type T
   whose framing-relevant fields are symbolic, followed by two symbolic bytes (the next section's
   id) and filler; after parseHeader + sectionFun the cursor must sit exactly at the declared
   length, the entry must carry the type's name, and the entry must equal the decode of the
   section's own bytes alone.
F2 loop harness (h_loop): the real parsePEL on PH + UH + m optional sections (catalogue orderings
   with repeated types) in which the ids of two hexdump-only sections are symbolic; names,
   0,1,2.. numbering, order and per-entry content against an independent oracle.
F3 h_numbering: buildOutput driven directly with symbolic section names.
"""
import json
import os
from collections import OrderedDict

from vlib.api import *
from vlib import pelbuild as pb
from vlib.stubs import FakeJson, FakeImporter, SymDict, patched
from pel.peltool import parse_user_data
from pel.datastream import DataStream
from pel.peltool import peltool
from pel.peltool.config import Config
from harness import C03_src

SNAP = {k: [(kk, vv) for kk, vv in v] for k, v in
        json.load(open(os.path.join(os.path.dirname(pb.__file__), "tables_snapshot.json"))).items()}
NAMES = dict(SNAP["sectionNames"])
DECODED = ["PS", "SS", "EH", "MT", "LP", "UD", "ED"]

FUNCTIONS = ["peltool.parsePEL", "peltool.parseHeader", "peltool.sectionFun", "peltool.generate*",
             "peltool.buildOutput", "peltool.getSectionName", "PrivateHeader/UserHeader/SRC/ExtendedUserHeader/"
             "FailingMTMS/ImpactedPartition/UserData/ExtUserData/Default .__init__/.toJSON", "DataStream.*"]


def decode_at(data, creator="O"):
    s = DataStream(data, byte_order="big", is_signed=False)
    out = OrderedDict()
    sid, slen, ver, sub, comp = peltool.parseHeader(s)
    peltool.sectionFun(s, out, sid, slen, ver, sub, comp, creator, Config())
    name = list(out.keys())[0]
    return name, out[name], s.index


CURSOR_CASES = ["EH", "EHbig", "LP", "UD", "ED", "EDc", "XX", "MT", "PS0", "SS0"]
LOOP_CASES = ["B", "A:1", "B:1", "C:1", "D:1", "S:1"]

HARNESSES = [
    {"fn": "h_cursor", "cases": CURSOR_CASES, "timeout": {"quick": 90, "thorough": 300}},
    {"fn": "h_src_cursor", "cases": C03_src.LAYOUTS, "quick_cases": C03_src.QUICK_LAYOUTS,
     "timeout": {"quick": 60, "thorough": 300}},
    {"fn": "h_loop", "cases": LOOP_CASES, "quick_cases": ["A:1", "C:1", "S:1"], "timeout": {"quick": 120, "thorough": 900}},
    {"fn": "h_numbering", "cases": ["m4"], "timeout": {"quick": 60, "thorough": 300}},
]
BOUNDS = {"cursor": "EH symptom length 0..12 and 10 lengths up to 255; LP name length 0..8 x target count 0..5; UD/ED/other payload 1..16 bytes "
                    "(declared length symbolic) with symbolic unknown id for 'other'; SRC: 0..3 callouts x 16 FRU flag "
                    "nibbles x PCE x MRU (C03 layout sweep); the two bytes following the section are symbolic in every case",
          "loop": "PH+UH+ up to 10 optional sections from 4 catalogue orderings (repeated UD/SS/ED, every decoded type); "
                  "ids of two hexdump-only sections symbolic (any 16-bit id outside PH,UH,PS,SS,EH,MT,LP,ED)",
          "numbering": "buildOutput with 4 sections whose names are symbolic choices among 3 candidates"}
ASSUMPTIONS = ["json.dumps / prettyPrint replaced by the FakeJson token (M7) in h_loop: JSON text is C06's subject",
               "well-formed = declared length equals what the layout adds up to (vlib/pelbuild.py)",
               "payload length >= 1 (C04's quantifier: 1..65527); a PCE name has >= 1 byte"]
OUTSIDE = ["more than 10 optional sections (the loop body is the same code)", "payloads > 16 bytes for length-driven sections",
           "text that is not UTF-8", "zero-length payloads (DataStream.get_mem(0) rejects them; see DESIGN.md)"]


def h_cursor() -> bool:
    """
    post: _
    """
    typ = CASE
    nxt = sym_bytes("next", 2)
    filler = b"\x00\x0C\x01\x00\x20\x00" + b"\x5A" * 24
    exp_name = None
    if typ == "EH":
        k = sym_int("k", 0, 12)
        sec = None
        for cand in range(13):
            if k == cand:
                sec = pb.EH(symptom=(b"BD8D1234_2B2C"[:cand - 1] + b"\0") if cand else b"")
        exp_name = "Extended User Header"
    elif typ == "EHbig":
        # symptom id lengths up to the one-byte maximum (multiples of 4 keep the section word aligned as real logs are)
        k = sym_int("k", 0, 9)
        sec = None
        sizes = [16, 40, 76, 80, 84, 88, 128, 200, 252, 255]
        for cand in range(10):
            if k == cand:
                sec = pb.EH(symptom=(b"BD8D1234_2B2C0000_" * 15)[:sizes[cand] - 1] + b"\0")
        exp_name = "Extended User Header"
    elif typ == "LP":
        nl, cnt = sym_int("nl", 0, 8), sym_int("cnt", 0, 5)
        sec = None
        for a in range(9):
            for b in range(6):
                if sym_all([nl == a, cnt == b]):
                    sec = pb.LP(name=(b"lparname"[:a - 1] + b"\0") if a else b"", targets=tuple(0x0101 * (j + 1) for j in range(b)))
        exp_name = "Impacted Partition"
    elif typ in ("UD", "ED", "EDc", "XX"):
        edc = typ == "EDc"              # ED with a 4-byte payload and an arbitrary creator byte
        typ = "ED" if edc else typ
        n = sym_int("n", 1, 16 if typ != "XX" else 8)
        if edc:
            assume(n == 4)      # (XX also forks over 20 section names)
        payload = b"\x01\x02\x03\x04\x05\x06\x07\x08\x09\x0A\x0B\x0C\x0D\x0E\x0F\x10"
        hdrlen = 12 if typ == "ED" else 8
        # the declared length is symbolic; the buffer continues with `nxt` right after the payload
        sec = None
        for cand in range(1, 17):
            if n == cand:
                if typ == "UD":
                    sec = pb.UD(payload[:cand], comp=0x4321)
                elif typ == "ED":
                    sec = pb.ED(payload[:cand], comp=0x4321, creator=sym_int("ed_creator", 0, 255) if edc else 0x4F)
                else:
                    sid = sym_bytes("sid", 2)
                    sec = pb.OTHER(sid, payload[:cand])
        if typ == "XX":
            sidv = sid[0] * 256 + sid[1]
            for d in DECODED + ["PH", "UH"]:
                assume(sidv != int.from_bytes(d.encode(), "big"))
        exp_name = {"UD": "User Data", "ED": "Extended User Data"}.get(typ)
    elif typ == "MT":
        sec = pb.MT()
        exp_name = "Failing MTMS"
    elif typ in ("PS0", "SS0"):
        sec = pb.SRC(sid=typ[:2], flags=0)
        exp_name = "Primary SRC" if typ == "PS0" else "Secondary SRC"
    declared = pb.size_of(sec)
    own = pb.flat(sec)
    if bool(sym_bool("followed")):
        data = mkbytes(own, nxt, filler)
    else:
        data = own                       # last section of the file
    try:
        # no user-data plugin is installed for the (symbolic) creator: the generic decoder handles the section
        with patched(parse_user_data, importlib=FakeImporter(None, present=lambda nm: False), userDataParsers=SymDict()):
            name, entry, used = decode_at(data)
            name1, entry1, used1 = decode_at(own)
    except Exception as e:
        return verdict(False, obs={"exception": repr(e)})
    if exp_name is None:     # hexdump-only / unknown id
        exp_name = "Unknown"
        for k2, v2 in SNAP["sectionNames"]:
            if sym_all([sid[0] == ord(k2[0]), sid[1] == ord(k2[1])]):
                exp_name = v2
    conds = [used == declared, used1 == declared, name == exp_name, name1 == exp_name, doc_eq(entry, entry1)]
    return verdict(sym_all(conds), obs={"name": name, "used": used, "declared": declared, "entry": entry})


def h_src_cursor() -> bool:
    """
    post: _
    """
    return C03_src.layout_body()


# ------------------------------------------------------------------------------ loop
def catalogue(case, x1, x2):
    co = pb.callouts_subsection([pb.callout(pce=pb.pce_identity(), mr=pb.mru(((0x48, 1), (0x4D, 2)))),
                                 pb.callout(loc=b"Ufcs-P1\0", fru=pb.fru_identity(0x42, pn=b"BMC0001"))])
    X1 = ("X", x1, pb.OTHER(x1, b"\x11\x22\x33\x44\x55"))
    X2 = ("X", x2, pb.OTHER(x2, b"\xAA\xBB\xCC\xDD\xEE\xFF\x01"))
    PS = ("PS", None, pb.SRC(flags=1, callouts=co))
    SS1 = ("SS", None, pb.SRC(sid="SS", ascii=b"BD8D0001", words=(0x020000E0, 0x11110000, 0x22220000, 3, 4, 5, 6, 7)))
    SS2 = ("SS", None, pb.SRC(sid="SS", ascii=b"BD8D0002", flags=1, callouts=co, wc=5,
                              words=(0x020000D0, 0x33330000, 0x44440000, 0x01000000, 9, 9, 9, 9)))
    T1, T2, T3 = ("UD", None, pb.UD(b"\x01", comp=0x4321)), ("DH", None, pb.OTHER("DH", b"\x02")), ("UD", None, pb.UD(b"\x03\x04", comp=0x4321))
    EH, MT, LP = ("EH", None, pb.EH()), ("MT", None, pb.MT()), ("LP", None, pb.LP())
    UD1 = ("UD", None, pb.UD(b"\x01\x02\x03\x04", comp=0x4321))
    UD2 = ("UD", None, pb.UD(b"\x05\x06\x07\x08\x09", comp=0x4321))
    ED1 = ("ED", None, pb.ED(b"\x0A\x0B\x0C", comp=0x4321))
    DH = ("DH", None, pb.OTHER("DH", b"\xDE\xAD"))
    return {
        "A": [PS, X1, EH, MT, X2],
        "B": [X1, X2, UD1, UD2, ED1],
        "C": [PS, SS1, SS2, LP, X1, UD1, X2, ED1, DH, UD2],
        "D": [UD1, X1, DH, ED1, ED1, X2, MT],
        "S": [T1, T2, ("X", x1, pb.OTHER(x1, b"\x05")), T3, T1, T2, T3, T1],      # the smallest legal sections (9..10 bytes)
    }[case]


def h_loop() -> bool:
    """
    post: _
    """
    x1 = sym_bytes("x1", 2)
    x2 = sym_bytes("x2", 2) if not CASE.endswith(":1") else b"ZZ"
    banned = [int.from_bytes(d.encode(), "big") for d in ("PH", "UH", "PS", "SS", "EH", "MT", "LP", "ED")]
    for x in (x1, x2):
        if not is_sym(x):
            continue
        v = x[0] * 256 + x[1]
        for bn in banned:
            assume(v != bn)
    secs = catalogue(CASE.split(":")[0], x1, x2)
    parts = []
    for _, _, s in secs:
        parts += s
    data = pb.flat(pb.PH(count=2 + len(secs)) + pb.UH() + parts)
    fj = FakeJson()
    cfg = Config()
    cfg.every_pel = True
    try:
        # reference: every optional section decoded alone, from its own bytes, each in a fresh process state
        alone = []
        for _, _, s in secs:
            fresh_state()
            with patched(peltool, json=fj):
                alone.append(decode_at(pb.flat(s)))
        fresh_state()
        with patched(peltool, json=fj, prettyPrint=lambda t, *a, **k: t):
            eid, tok = peltool.parsePEL(DataStream(data, byte_order="big", is_signed=False), cfg, False)
        doc = tok.obj
        keys = list(doc.keys())
    except Exception as e:
        return verdict(False, obs={"exception": repr(e)})
    # independent oracle for names / numbering
    names = []
    for typ, xid, _ in secs:
        if typ != "X":
            names.append(NAMES[typ])
        else:
            nm = "Unknown"
            for k2, v2 in SNAP["sectionNames"]:
                if sym_all([xid[0] == ord(k2[0]), xid[1] == ord(k2[1])]):
                    nm = v2
            names.append(nm)
    exp_keys = ["Private Header", "User Header"]
    seen = {}
    for nm in names:
        if names.count(nm) > 1:
            exp_keys.append("%s %d" % (nm, seen.get(nm, 0)))
            seen[nm] = seen.get(nm, 0) + 1
        else:
            exp_keys.append(nm)
    conds = [keys == exp_keys, len(keys) == 2 + len(secs), eid == "50001A32"]
    if keys == exp_keys:
        for i, (nm1, entry1, used1) in enumerate(alone):
            conds.append(nm1 == names[i])
            conds.append(doc_eq(doc[exp_keys[2 + i]], entry1))
    return verdict(sym_all(conds), obs={"keys": keys})


def h_numbering() -> bool:
    """
    post: _
    """
    cands = ["User Data", "Unknown", "Secondary SRC"]
    m = 4
    picks = [sym_int("p%d" % i, 0, 2) for i in range(m)]
    names = []
    for p in picks:
        nm = cands[0]
        if p == 1:
            nm = cands[1]
        elif p == 2:
            nm = cands[2]
        names.append(nm)
    sections = [OrderedDict([(nm, {"payload": i})]) for i, nm in enumerate(names)]
    out = OrderedDict()
    out["Private Header"] = {"h": 1}
    peltool.buildOutput(sections, out)
    exp, seen = ["Private Header"], {}
    for nm in names:
        if names.count(nm) > 1:
            exp.append("%s %d" % (nm, seen.get(nm, 0)))
            seen[nm] = seen.get(nm, 0) + 1
        else:
            exp.append(nm)
    conds = [list(out.keys()) == exp]
    if list(out.keys()) == exp:
        for i, k2 in enumerate(exp[1:]):
            conds.append(out[k2] == {"payload": i})
    return verdict(sym_all(conds), obs={"keys": list(out.keys())})
