"""C03 - SRC sections display the encoded words, flags and every callout faithfully.

Same scheme as C02: one field of a well-formed SRC section is symbolic per run, the real
decoder (parseHeader + sectionFun -> SRC.toJSON / getCallouts / Callout / FRUIdentity /
PCEIdentity / MRU) runs on the bytes, the oracle states the displayed value of that field
and non-interference for everything else.  Extra families: callout-layout sweep (every FRU
flag nibble, optional PCE / MRU, 0..2 callouts), registry message substitution (fixture
registry), maintenance-procedure description.
"""
import json
import os
from collections import OrderedDict

from vlib.api import *
from vlib import pelbuild as pb
from pel.datastream import DataStream
from pel.peltool import peltool, src as srcmod
from pel.peltool.config import Config

SNAP = {k: [(kk, vv) for kk, vv in v] for k, v in
        json.load(open(os.path.join(os.path.dirname(pb.__file__), "tables_snapshot.json"))).items()}

FUNCTIONS = ["peltool.parseHeader", "peltool.sectionFun", "peltool.generateSRC", "SRC.toJSON", "SRC.getCallouts",
             "Callout.__init__", "Callout.flattenedSize", "FRUIdentity.__init__", "PCEIdentity.__init__",
             "MRU.__init__", "SRC.getErrorDetails", "SRC.buildMessage", "SRC.buildHexwordDescs",
             "Registry.getErrorMessage", "SRC.getProcedureDesc", "ocallouts.getMaintProcDesc", "DataStream.*"]

WORDS = (0x020000F0, 0x2B2C0000, 0x11223344, 0x21000000, 0xAABBCCDD, 0x12345678, 0x9ABCDEF0, 0x0F1E2D3C)
KINDS = {"BD": b"BD8D1234", "11": b"110015F0", "BC": b"BC8A0301", "XX": b"B7001111"}


def lookup(table, key, fallback):
    exp = fallback
    for k, v in SNAP[table]:
        if key == k:
            exp = v
    return exp


def decode(data, creator="O", plugins=False):
    s = DataStream(data, byte_order="big", is_signed=False)
    out = OrderedDict()
    sid, slen, ver, sub, comp = peltool.parseHeader(s)
    cfg = Config()
    cfg.allow_plugins = plugins
    peltool.sectionFun(s, out, sid, slen, ver, sub, comp, creator, cfg)
    name = list(out.keys())[0]
    return name, out[name], s.index


def tmpl_callouts(**over):
    a = dict(prio=0x48, loc=b"U78DA.ND1.1234567-P0\0\0\0\0", fru=pb.fru_identity(0x1D, b"PN12345", b"CC12", b"SN123456789"),
             pce=pb.pce_identity(b"9105-22A", b"PCESERIAL001", b"pcename\0"), mr=pb.mru(((0x48, 0x00010001), (0x4D, 0x00020002))))
    b = dict(prio=0x4D, loc=b"Ufcs-P1\0", fru=pb.fru_identity(0x42, pn=b"BMC0001"))
    a.update(over.get("a", {}))
    b.update(over.get("b", {}))
    return pb.callouts_subsection([pb.callout(**a), pb.callout(**b)])


def bool_text(b):
    return "True" if b else "False"


def strip_spaces(cps):
    """code points without leading/trailing ASCII white space (forks; resolved by the decoder's own strip)"""
    ws = (32, 9, 10, 11, 12, 13, 28, 29, 30, 31, 0x85, 0xA0)
    lo, hi = 0, len(cps)
    while lo < hi and sym_any([cps[lo] == w for w in ws]):
        lo += 1
    while hi > lo and sym_any([cps[hi - 1] == w for w in ws]):
        hi -= 1
    return cps[lo:hi]


# ------------------------------------------------------------------------ field cases
CASES = []
for kind in KINDS:
    CASES += ["%s:version" % kind, "%s:flags" % kind] + ["%s:w%d" % (kind, i) for i in range(8)] + ["%s:wc" % kind]
CASES += ["BD:hdr:%s" % f for f in ("ver", "sub", "compO", "compH")]
CASES += ["BD:ascii:%d" % p for p in (0, 2, 4, 6, 8, 30)] + ["SS:ascii:0", "SS:w1", "SS:flags"]
CO_FIELDS = ["a.prio", "a.frutype", "a.loc", "a.pn", "a.ccin", "a.sn", "a.pce_mtm", "a.pce_sn", "a.pce_name", "a.pce_blank",
             "a.mru0", "a.mru1", "a.mruprio", "b.prio", "b.frutype", "b.proc", "b.loc"]
CASES += ["CO:" + f for f in CO_FIELDS]
QUICK = ["CO:a.pce_blank", "BD:w1", "BD:w3", "11:w0", "BC:w3", "XX:w1", "BD:wc", "BD:flags", "BD:version", "BD:ascii:0", "BD:ascii:8",
         "CO:a.prio", "CO:a.frutype", "CO:a.mru1", "CO:a.pce_name", "CO:b.proc", "CO:a.loc", "SS:w1"]

LAYOUTS = ["n%d:f%X:p%d:m%d" % (n, f, p, m) for n in (1, 2) for f in range(16) for (p, m) in ((0, 0), (1, 0), (0, 1), (1, 2))]
LAYOUTS += ["n0:f0:p0:m0", "n1:fD:p1:m3", "n1:fD:p0:m15", "n2:f8:p0:m8", "n2:f1:p1:m7", "n3:fD:p1:m1", "n1:f8:p1:m0:L80", "n1:f8:p0:m0:L0", "n2:f2:p0:m1:L0"]
QUICK_LAYOUTS = ["n2:f0:p0:m0", "n1:f0:p1:m0", "n0:f0:p0:m0", "n1:fD:p1:m3", "n1:fD:p0:m15", "n2:f8:p0:m8", "n2:fF:p1:m2", "n2:f0:p0:m1", "n1:f8:p1:m0:L80", "n2:f2:p0:m1:L0", "n1:f5:p0:m0"]

HARNESSES = [
    {"fn": "h_field", "cases": CASES, "quick_cases": QUICK, "timeout": {"quick": 60, "thorough": 300}},
    {"fn": "h_layout", "cases": LAYOUTS, "quick_cases": QUICK_LAYOUTS, "timeout": {"quick": 60, "thorough": 300}},
    {"fn": "h_registry", "cases": ["BD", "BD:small6", "BD:small9", "11", "BC", "11:afterBD", "BD:after11", "BD:letters"], "quick_cases": ["BD", "11", "BC", "11:afterBD", "BD:letters"], "timeout": {"quick": 60, "thorough": 300}},
    {"fn": "h_procedure", "cases": ["O", "B"], "timeout": {"quick": 60, "thorough": 300}},
    {"fn": "h_two_srcs", "cases": ["PS-SS", "SS-PS:wc5"], "timeout": {"quick": 60, "thorough": 300}},
]
BOUNDS = {"fields": "one field symbolic per run (all values): version, 7 flag bits, word count 1..9, each of the 8 hex words "
                    "(32 bit), 2-character windows of the 32-byte reference code, callout priority / FRU type / text fields / "
                    "PCE fields / MRU ids, for SRC kinds BD, 11, BC, other and primary/secondary",
          "layouts": "0..3 callouts; every FRU-identity flag nibble; PCE absent/present; 0..3 and 15 MRUs; location code "
                     "length 0, 8, 24, 80; all text content symbolic-free (template) in the layout sweep",
          "registry": "fixture registry with 3 entries (%1..%4 substitution, Words6To9 descriptions); reason code window "
                      "of 1 symbolic character; referenced words symbolic", "cases": len(CASES) + len(LAYOUTS) + 5}
ASSUMPTIONS = ["text bytes are printable ASCII followed by NUL padding", "plugins disabled (allow_plugins=False) except in "
               "h_procedure; SRC plugin dispatch is C18's subject", "tables_snapshot.json = published tables",
               "message registry = fixture (pel_registry is not installed in this sandbox)"]
OUTSIDE = ["more than 3 callouts", "callouts without a FRU identity", "PCE with an empty name (size 24)",
           "registry contents other than the fixture", "two distant fields special at once"]


def build_src(kind="BD", sid="PS", with_co=True, **kw):
    k = dict(sid=sid, flags=0x01 if with_co else 0x00, wc=9, words=list(WORDS), ascii=KINDS[kind],
             callouts=tmpl_callouts() if with_co else None)
    k.update(kw)
    return pb.flat(pb.SRC(**k))


def h_field() -> bool:
    """
    post: _
    """
    parts = CASE.split(":")
    kind, name = parts[0], parts[1]
    arg = parts[2] if len(parts) > 2 else ""
    sid = "PS"
    if kind == "SS":
        kind, sid = "BD", "SS"
    creator = "O"
    kw, tkw = {}, {}
    own, conds = [], []
    co_over = None
    if kind == "CO":
        who, fld = name.split(".")
        kind = "BD"
        co_over = {who: {}}
    if name == "version":
        x = sym_int("x", 0, 255)
        kw["version"] = x
    elif name == "flags":
        x = sym_int("x", 0, 127)
        kw["flags"] = x * 2 + 1
    elif name == "wc":
        x = sym_int("x", 1, 9)
        kw["wc"] = x
    elif name[0] == "w" and name[1:].isdigit():
        i = int(name[1:])
        x = sym_int("x", 0, 0xFFFFFFFF)
        ws = list(WORDS)
        ws[i] = x
        kw["words"] = ws
    elif name == "hdr":
        if arg.startswith("comp"):
            creator = arg[4]
            x = sym_int("x", 0, 0xFFFF)
            kw["comp"] = x
        else:
            x = sym_int("x", 0, 255)
            kw[arg] = x
    elif name == "ascii":
        p = int(arg)
        w = sym_bytes("w", 2, 0x20, 0x7E)
        base = KINDS[kind].ljust(32, b" ")
        kw["ascii"] = mkbytes(base[:p], w, base[p + 2:])
    elif co_over is not None:
        if fld == "prio":
            x = sym_int("x", 0, 255)
            co_over[who]["prio"] = x
        elif fld == "frutype":
            x = sym_int("x", 0, 15)
            low = 0xD if who == "a" else 0x2
            if who == "a":
                co_over[who]["fru"] = [b"ID", 4 + 8 + 4 + 12, x * 16 + low] + pb.txt(b"PN12345", 8) + pb.txt(b"CC12", 4) + pb.txt(b"SN123456789", 12)
            else:
                co_over[who]["fru"] = [b"ID", 4 + 8, x * 16 + low] + pb.txt(b"BMC0001", 8)
        elif fld in ("loc",):
            n = 6
            w = sym_bytes("w", n, 0x20, 0x7E)
            co_over[who]["loc"] = [w, b"\0\0"]
        elif fld in ("pn", "ccin", "sn", "proc"):
            width = {"pn": 8, "ccin": 4, "sn": 12, "proc": 8}[fld]
            n = width - 1
            w = sym_bytes("w", n, 0x20, 0x7E)
            if who == "a":
                vals = {"pn": b"PN12345", "ccin": b"CC12", "sn": b"SN123456789"}
                vals[fld] = mkbytes(w, b"\0")
                co_over[who]["fru"] = [b"ID", 28, 0x1D] + pb.txt(vals["pn"], 8) + pb.txt(vals["ccin"], 4) + pb.txt(vals["sn"], 12)
            else:
                co_over[who]["fru"] = [b"ID", 12, 0x42, mkbytes(w, b"\0")]
        elif fld == "pce_blank":
            # a PCE identity without machine type (all NUL) but with a serial number / name
            w = sym_bytes("w", 7, 0x20, 0x7E)
            n = 7
            co_over[who]["pce"] = [b"PE", 32, 0] + pb.txt(b"", 8) + pb.txt(b"PCESERIAL001", 12) + [mkbytes(w, b"\0")]
        elif fld in ("pce_mtm", "pce_sn", "pce_name"):
            width = {"pce_mtm": 8, "pce_sn": 12, "pce_name": 8}[fld]
            n = width - 1
            w = sym_bytes("w", n, 0x20, 0x7E)
            vals = {"pce_mtm": b"9105-22A", "pce_sn": b"PCESERIAL001", "pce_name": b"pcename\0"}
            vals[fld] = mkbytes(w, b"\0")
            co_over[who]["pce"] = [b"PE", 32, 0] + pb.txt(vals["pce_mtm"], 8) + pb.txt(vals["pce_sn"], 12) + [vals["pce_name"]]
        elif fld in ("mru0", "mru1"):
            x = sym_int("x", 0, 0xFFFFFFFF)
            ents = [(0x48, 0x00010001), (0x4D, 0x00020002)]
            i = int(fld[3])
            ents[i] = (ents[i][0], x)
            co_over[who]["mr"] = pb.mru(tuple(ents))
        elif fld == "mruprio":
            x = sym_int("x", 0, 0xFFFFFFFF)
            co_over[who]["mr"] = pb.mru(((x, 0x00010001), (0x4D, 0x00020002)))
        kw["callouts"] = tmpl_callouts(**co_over)
    data = mkbytes(build_src(kind, sid, **kw), b"\xEE\xEE")
    tmpl = build_src(kind, sid) + b"\xEE\xEE"
    try:
        nm, out, used = decode(data, creator)
        nm0, out0, used0 = decode(tmpl, creator)
    except Exception as e:
        return verdict(False, obs={"exception": repr(e)})
    conds.append(nm == ("Primary SRC" if sid == "PS" else "Secondary SRC"))
    conds.append(used == len(data) - 2)      # the cursor stops exactly at the end of the section
    is_bmc = kind in ("BD", "11")
    is_hb = kind == "BC"

    def co(i):
        return out["Callout Section"]["Callouts"][i]

    if name == "version":
        own = ["SRC Version"]
        conds.append(numval_eq(out["SRC Version"], x, 16))
    elif name == "flags":
        own = ["Virtual Progress SRC", "I5/OS Service Event Bit", "Hypervisor Dump Initiated"]
        f = x * 2 + 1
        conds += [out["Virtual Progress SRC"] == bool_text(bit_set(f, 7)),
                  out["I5/OS Service Event Bit"] == bool_text(bit_set(f, 4)),
                  out["Hypervisor Dump Initiated"] == bool_text(bit_set(f, 2))]
    elif name == "wc":
        own = ["Valid Word Count"] + ["Hex Word %d" % i for i in range(2, 10)]
        conds.append(numval_eq(out["Valid Word Count"], x, 16))
        for i in range(2, 10):
            key = "Hex Word %d" % i
            if i <= x:
                conds.append(key in out and numval_eq(out[key], WORDS[i - 2], 16) and len(out[key]) == 8)
            else:
                conds.append(key not in out)
    elif name[0] == "w" and name[1:].isdigit():
        key = "Hex Word %d" % (i + 2)
        own = [key]
        conds.append(numval_eq(out[key], x, 16))
        conds.append(len(out[key]) == 8)
        if i == 0:
            own.append("SRC Format")
            conds.append(numval_eq(out["SRC Format"], from_be(be(x, 4)[3:]), 16))
        if i == 1 and is_bmc:
            own.append("Backplane CCIN")
            conds.append(numval_eq(out["Backplane CCIN"], from_be(be(x, 4)[:2]), 16))
        if i == 3:
            if is_bmc:
                own.append("Terminate FW Error")
                conds.append(out["Terminate FW Error"] == bool_text(bit_set(x, 29)))
            if is_bmc or is_hb:
                own += ["Deconfigured", "Guarded"]
                conds.append(out["Deconfigured"] == bool_text(bit_set(x, 25)))
                conds.append(out["Guarded"] == bool_text(bit_set(x, 24)))
        for k2 in ("Backplane CCIN", "Terminate FW Error"):
            conds.append((k2 in out) == is_bmc)
        for k2 in ("Deconfigured", "Guarded"):
            conds.append((k2 in out) == (is_bmc or is_hb))
    elif name == "hdr":
        if arg.startswith("comp"):
            own = ["Created by"]
            hi, lo = x // 256, x % 256
            if creator == "H" and sym_all([hi != 0, lo != 0]):
                conds.append(str_is(out["Created by"], [hi, lo]))
            else:
                conds.append(numval_eq(out["Created by"], x, 16))
        else:
            key = {"ver": "Section Version", "sub": "Sub-section type"}[arg]
            own = [key]
            conds.append(out[key] == x)
    elif name == "ascii":
        own = ["Reference Code", "Backplane CCIN", "Terminate FW Error", "Deconfigured", "Guarded", "Error Details"]
        full = [base[j] for j in range(p)] + [w[0], w[1]] + [base[j] for j in range(p + 2, 32)]
        conds.append(str_is(out["Reference Code"], strip_spaces(full)))
        bmc = sym_any([sym_all([full[0] == 66, full[1] == 68]), sym_all([full[0] == 49, full[1] == 49])])
        hb = sym_all([full[0] == 66, full[1] == 67])
        bmc, hb = bool(bmc), bool(hb)
        for k2 in ("Backplane CCIN", "Terminate FW Error"):
            conds.append((k2 in out) == bmc)
        for k2 in ("Deconfigured", "Guarded"):
            conds.append((k2 in out) == (bmc or hb))
        if bmc:
            conds.append(numval_eq(out["Backplane CCIN"], WORDS[1] >> 16, 16))
            conds.append(out["Terminate FW Error"] == bool_text(WORDS[3] & 0x20000000))
        if bmc or hb:
            conds.append(out["Deconfigured"] == bool_text(WORDS[3] & 0x02000000))
            conds.append(out["Guarded"] == bool_text(WORDS[3] & 0x01000000))
    elif co_over is not None:
        own = ["Callout Section"]
        cs, cs0 = out["Callout Section"], out0["Callout Section"]
        conds.append(cs["Callout Count"] == 2 and len(cs["Callouts"]) == 2)
        idx = 0 if who == "a" else 1
        me, me0 = co(idx), cs0["Callouts"][idx]
        conds.append(doc_eq(co(1 - idx), cs0["Callouts"][1 - idx]))
        mine = []
        if fld == "prio":
            mine = ["Priority"]
            conds.append(me["Priority"] == lookup("calloutPriorityValues", x, "Invalid"))
        elif fld == "frutype":
            mine = ["FRU Type"]
            conds.append(me["FRU Type"] == lookup("failingComponentType", x * 16, "Invalid"))
        elif fld == "loc":
            mine = ["Location Code"]
            conds.append(str_is(me["Location Code"], [w[j] for j in range(n)]))
        elif fld in ("pn", "ccin", "sn", "proc"):
            key = {"pn": "Part Number", "ccin": "CCIN", "sn": "Serial Number", "proc": "Procedure"}[fld]
            mine = [key, "Description"]
            conds.append(str_is(me[key], [w[j] for j in range(n)]))
        elif fld == "pce_mtm":
            mine = ["PCE MTMS"]
            conds.append(str_is(me["PCE MTMS"], [w[j] for j in range(n)] + [95] + list(b"PCESERIAL001")))
        elif fld == "pce_sn":
            mine = ["PCE MTMS"]
            conds.append(str_is(me["PCE MTMS"], list(b"9105-22A") + [95] + [w[j] for j in range(n)]))
        elif fld == "pce_name":
            mine = ["PCE Name"]
            conds.append(str_is(me["PCE Name"], [w[j] for j in range(n)]))
        elif fld == "pce_blank":
            mine = ["PCE Name", "PCE MTMS"]
            conds.append("PCE Name" in me and str_is(me["PCE Name"], [w[j] for j in range(n)]))
            me0 = dict(me0)
            me0.pop("PCE MTMS", None)
            conds.append("PCE MTMS" not in me or me["PCE MTMS"] == "_PCESERIAL001")
        elif fld in ("mru0", "mru1"):
            mine = ["MRU Id"]
            ids = me["MRU Id"].split(",")
            conds.append(len(ids) == 2)
            if len(ids) == 2:
                i = int(fld[3])
                conds.append(numval_eq(ids[i], x, 16))
                conds.append(numval_eq(ids[1 - i], (0x00010001, 0x00020002)[1 - i], 16))
        elif fld == "mruprio":
            mine = []
        conds.append([k3 for k3 in me.keys() if k3 != "PCE MTMS" or fld != "pce_blank"] == list(me0.keys()))
        for k2 in me0:
            if k2 not in mine:
                conds.append(doc_eq(me[k2], me0[k2]))
    # non-interference for the section's other keys
    keys_same = [k2 for k2 in out0 if k2 not in own]
    for k2 in keys_same:
        conds.append(k2 in out and doc_eq(out[k2], out0[k2]))
    conds.append(all(k2 in out0 or k2 in own for k2 in out))
    return verdict(sym_all(conds), obs={"out": out})


# ---------------------------------------------------------------------- layout sweep
def h_layout() -> bool:
    """
    post: _
    """
    return layout_body()


def layout_body():
    # (no contract of its own: CrossHair would otherwise *assume* it when called from C01's harness)
    parts = CASE.split(":")
    n, f, p, m = int(parts[0][1:]), int(parts[1][1:], 16), int(parts[2][1:]), int(parts[3][1:])
    L = int(parts[4][1:]) if len(parts) > 4 else 8
    nxt = sym_bytes("next", 2)           # whatever follows the section
    expected, cos = [], []
    for c in range(n):
        loc = (b"U%d-P%d-C%d-" % (c, c, c) * 12)[:L - 1] + b"\0" if L else b""
        flags = (0x10 if c == 0 else 0x40) | f
        pn, cc, sn = b"PN%05d" % c, b"CC%02d" % c, b"SN%09d" % c
        fru = pb.fru_identity(flags, pn, cc, sn)
        pce = pb.pce_identity(b"MTM-%04d" % c, b"PCESN%07d" % c, b"name%d\0\0\0" % c) if p else None
        ents = tuple((0x48 + j, 0x00A00000 + 256 * c + j) for j in range(m))
        mr = pb.mru(ents) if m else None
        cos.append(pb.callout(prio=0x48 if c == 0 else 0x4C, loc=loc, fru=fru, pce=pce, mr=mr))
        e = OrderedDict()
        e["FRU Type"] = dict(SNAP["failingComponentType"]).get(flags & 0xF0, "Invalid")
        e["Priority"] = dict(SNAP["calloutPriorityValues"]).get(0x48 if c == 0 else 0x4C, "Invalid")
        if L:
            e["Location Code"] = loc.rstrip(b"\0").decode()
        if f & 8:
            e["Part Number"] = pn.decode()
        if f & 2:
            e["Procedure"] = pn.decode()
        if f & 4:
            e["CCIN"] = cc.decode()
        if f & 1:
            e["Serial Number"] = sn.decode()
        if p:
            e["PCE MTMS"] = "MTM-%04d_PCESN%07d" % (c, c)
            e["PCE Name"] = "name%d" % c
        if m:
            e["MRU Id"] = ",".join("%08X" % (0x00A00000 + 256 * c + j) for j in range(m))
        expected.append(e)
    sec = pb.SRC(flags=0x01, callouts=pb.callouts_subsection(cos)) if n else pb.SRC(flags=0x00)
    declared = pb.size_of(sec)
    data = mkbytes(pb.flat(sec), nxt, b"\x00\x10\x01\x00\x20\x00" + b"\xA5" * 40)
    try:
        nm, out, used = decode(data)
    except Exception as e:
        return verdict(False, obs={"exception": repr(e)})
    conds = [used == declared, nm == "Primary SRC"]
    if n:
        cs = out.get("Callout Section", {})
        conds.append(cs.get("Callout Count") == n)
        got = [dict(c) for c in cs.get("Callouts", [])]
        conds.append(got == [dict(e) for e in expected])
        conds.append([list(c.keys()) for c in cs.get("Callouts", [])] == [list(e.keys()) for e in expected])
    else:
        conds.append("Callout Section" not in out)
    return verdict(sym_all(conds), obs={"out": out, "used": used, "declared": declared})


# ------------------------------------------------------------------------- registry
FIXTURE_REGISTRY = [
    {"Name": "x.A", "SRC": {"ReasonCode": "0x2030", "Words6To9": {"6": {"Description": "Failing unit number",
                                                                         "AdditionalDataPropSource": "FUN"},
                                                                   "8": {"AdditionalDataPropSource": "NODESC"}}},
     "Documentation": {"Message": "Unit %1 failed with rc %2 at %3 (%4)", "MessageArgSources": ["SRCWord6", "SRCWord7", "SRCWord8", "SRCWord9"]}},
    {"Name": "x.B", "SRC": {"ReasonCode": "0x2031", "Type": "11"},
     "Documentation": {"Message": "Power fault on rail %1", "MessageArgSources": ["SRCWord5"]}},
    {"Name": "x.C", "SRC": {"ReasonCode": "0x0301", "Type": "BC"}, "Documentation": {"Message": "Hostboot says hi"}},
    {"Name": "x.D", "SRC": {"Type": "BD"}, "Documentation": {"Message": "never: no reason code"}},
    {"Name": "x.E", "SRC": {"ReasonCode": "0x2A3F"}, "Documentation": {"Message": "Letters matter"}},
]


def h_registry() -> bool:
    """
    post: _
    """
    kind = CASE.split(":")[0]
    small = CASE.split(":")[1] if ":" in CASE else ""
    letters = small == "letters"            # a reason code with hex letters: 2A3E / 2A3F
    c = sym_int("c", 0x45 if letters else 0x30, 0x46 if letters else (0x31 if small.startswith("after") else (0x30 if small else 0x39)))   # last character of the reason code'
    # hex(word) has a value-dependent digit count (one fork per count): only the word named by the case
    # ranges over all 32-bit values, the others over the 8-digit values
    w = [sym_int("w%d" % i, 0 if small == "small%d" % i else 0x10000000, 0xFFFFFFFF) for i in (5, 6, 7, 8, 9)]
    words = list(WORDS)
    for j, i in enumerate((5, 6, 7, 8, 9)):
        words[i - 2] = w[j]
    prefix = {"BD": b"BD8D203", "11": b"1100203", "BC": b"BC8A030"}[kind]
    if letters:
        prefix = b"BD8D2A3"
    ascii = mkbytes(prefix, [c], b" " * 24)
    data = build_src(kind, "PS", with_co=False, words=words, ascii=ascii)
    saved = srcmod.registry.pels
    srcmod.registry.pels = FIXTURE_REGISTRY
    try:
        if small.startswith("after"):
            # history: an SRC of another type with the very same reason code was decoded just before
            other = small[5:]
            oprefix = {"BD": b"BD8D203", "11": b"1100203", "BC": b"BC8A030"}[other]
            decode(build_src(other, "PS", with_co=False, words=words, ascii=mkbytes(oprefix, [c], b" " * 24)))
        nm, out, used = decode(data)
    except Exception as e:
        return verdict(False, obs={"exception": repr(e)})
    finally:
        srcmod.registry.pels = saved
    ed = out.get("Error Details")
    conds = []

    def hexw(v):          # hex(word) rendering used in messages: value compared numerically
        return v

    if letters:
        if c == 0x46:
            conds.append(ed is not None and ed.get("Message") == "Letters matter" and list(ed.keys()) == ["Message"])
        else:
            conds.append(ed is None)
    elif kind == "BD" and c == 0x30:
        conds.append(ed is not None)
        if ed is not None:
            msg = ed["Message"]
            # "Unit %1 failed with rc %2 at %3 (%4)" with %n -> hex(word 6..9)
            toks = msg.split(" ")
            conds.append(len(toks) == 9 and toks[0] == "Unit" and toks[2] == "failed" and toks[3] == "with"
                         and toks[4] == "rc" and toks[6] == "at")
            if len(toks) == 9:
                conds.append(numval_eq(toks[1], w[1], 16))
                conds.append(numval_eq(toks[5], w[2], 16))
                conds.append(numval_eq(toks[7], w[3], 16))
                last = toks[8]
                conds.append(last[0] == "(" and last[-1] == ")" and numval_eq(last[1:-1], w[4], 16))
            conds.append(list(ed.keys()) == ["Message", "FUN"])
            if "FUN" in ed:
                conds.append(ed["FUN"][0] == w[1] and ed["FUN"][1] == "Failing unit number")
    elif kind == "11" and c == 0x31:
        conds.append(ed is not None)
        if ed is not None:
            toks = ed["Message"].split(" ")
            conds.append(len(toks) == 5 and toks[:4] == ["Power", "fault", "on", "rail"])
            if len(toks) == 5:
                conds.append(numval_eq(toks[4], w[0], 16))
            conds.append(list(ed.keys()) == ["Message"])
    elif kind == "BC" and c == 0x31:
        conds.append(ed is not None and ed["Message"] == "Hostboot says hi" and list(ed.keys()) == ["Message"])
    else:
        conds.append(ed is None)
    return verdict(sym_all(conds), obs={"out": out})


# ------------------------------------------------------------------------ procedure
def h_procedure() -> bool:
    """
    post: _
    """
    creator = CASE
    c = sym_int("c", 0x30, 0x39)          # BMC000<c>
    fru = [b"ID", 12, 0x42, mkbytes(b"BMC000", [c], b"\0")]
    co = pb.callouts_subsection([pb.callout(prio=0x48, loc=b"Ufcs-P1\0", fru=fru)])
    data = build_src("BD", "PS", callouts=co)
    saved = dict(srcmod.calloutParsers), dict(srcmod.srcParsers)
    srcmod.srcParsers["srcparsers.%ssrc.%ssrc" % (creator.lower(), creator.lower())] = None   # SRC plugin out of scope here
    try:
        nm, out, used = decode(data, creator, plugins=True)
    except Exception as e:
        return verdict(False, obs={"exception": repr(e)})
    finally:
        srcmod.calloutParsers.clear()
        srcmod.calloutParsers.update(saved[0])
        srcmod.srcParsers.clear()
        srcmod.srcParsers.update(saved[1])
    me = out["Callout Section"]["Callouts"][0]
    conds = [str_is(me["Procedure"], list(b"BMC000") + [c])]
    exp = None
    if creator == "O":
        for k, v in SNAP["procedures"]:
            if sym_all([len(k) == 7, c == ord(k[6])]) and k[:6] == "BMC000":
                exp = v
    if exp is None:
        conds.append("Description" not in me)
    else:
        conds.append(me.get("Description") == exp)
    return verdict(sym_all(conds), obs={"callout": me})


def h_two_srcs() -> bool:
    """
    post: _
    """
    # a second SRC decoded after another one in the same process shows ITS words, format, CCIN and status bits
    first_sid, rest = CASE.split("-")
    second_sid = rest.split(":")[0]
    wc2 = 5 if rest.endswith("wc5") else 9
    x = sym_int("x", 0, 0xFFFFFFFF)
    y = sym_int("y", 0, 0xFFFFFFFF)
    w1 = (0x020000F0, 0x2B2C0000, 0x11223344, 0x21000000, 0xAABBCCDD, 0x12345678, 0x9ABCDEF0, 0x0F1E2D3C)
    w2 = [0x020000E1, x, 0x55667788, y, 0x01020304, 0x05060708, 0x090A0B0C, 0x0D0E0F10]
    a = pb.flat(pb.SRC(sid=first_sid, words=w1, ascii=b"BD8D1111"))
    b = mkbytes(pb.flat(pb.SRC(sid=second_sid, words=w2, ascii=b"BD8D2222", wc=wc2)))
    try:
        decode(a)
        nm, out, used = decode(b)
    except Exception as e:
        return verdict(False, obs={"exception": repr(e)})
    conds = [numval_eq(out["Hex Word 2"], w2[0], 16), numval_eq(out["Hex Word 3"], x, 16), numval_eq(out["Hex Word 5"], y, 16),
             numval_eq(out["SRC Format"], 0xE1, 16), numval_eq(out["Backplane CCIN"], from_be(be(x, 4)[:2]), 16),
             out["Terminate FW Error"] == bool_text(bit_set(y, 29)), out["Deconfigured"] == bool_text(bit_set(y, 25)),
             out["Guarded"] == bool_text(bit_set(y, 24)), out["Reference Code"] == "BD8D2222",
             ("Hex Word 9" in out) == (wc2 == 9), ("Hex Word 6" in out) == (wc2 == 9)]
    return verdict(sym_all(conds), obs={"out": out})
