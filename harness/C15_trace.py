"""C15 - trace buffers decode entry by entry, stopping at the first malformed entry."""
from vlib.api import *
from vlib.stubs import patched
from pel import hexdump as hd
from pel.datastream import DataStream
from io_drawer import trace

FUNCTIONS = ["TraceBufferHeader.read", "TraceEntry.read/get_args/is_binary_trace", "TraceBuffer.read",
             "TraceStringFile.__init__/get_trace_string", "TraceString.get_message/is_match/is_partial_match",
             "trace._format_trace_entry", "trace.parse_trace_data", "io_drawer.utils.format_timestamp"]

STRINGS = [
    (1200345, "exact A=%08X B=%08X", "a.cpp(12)"),
    (7700345, "partial one %08X", "b.cpp(77)"),
    (9900345, "partial two %08X", "c.cpp(99)"),
    (5500999, "five %08X %08X %08X %08X %08X", "d.cpp(55)"),
    (4400111, "battery at 100%%", "e.cpp(44)"),
    (3300222, "no args here", "f.cpp(33)"),
    (2200777, "state a||b reached, mask %08X||%08X", "g.cpp(22)"),      # the text itself contains the column separator
]


def string_file():
    lines = ["#FSP_TRACE_v2|||Thu Sep 24 12:55:43 2020|||BUILD:Release"]
    lines += ["%d||%s||%s" % s for s in STRINGS]
    lines += ["garbage line without separators", "  12||  spaced  ||  loc.cpp(1)  "]
    return "\n".join(lines) + "\n"


class _F:
    def __init__(self, text):
        self.lines = text.splitlines(True)

    def __iter__(self):
        return iter(self.lines)

    def __enter__(self):
        return self

    def __exit__(self, *a):
        return False


def run(data):
    with patched(trace, open=lambda p, *a, **k: _F(string_file())):
        return trace.parse_trace_data(data, "/fixtures/strings")


def header(size, comp=b"INFO", ver=2, wrap=3):
    return mkbytes([ver], b"\x20\x01\x42", comp.ljust(12, b"\0"), b"\0\0\0\0", be(size, 4) if is_sym(size) else size.to_bytes(4, "big"),
                   wrap.to_bytes(4, "big"), b"\x00\x00\x00\x40")


def entry(length_field, data, tag=0x4654, hashv=3300222, line=562, trailer=None, tbh=0x0E10, tbl=0x0123, pad=None):
    n = len(data)
    padn = (-n) % 4 if pad is None else pad
    total = 16 + n + padn + 4
    hv = be(hashv, 4) if is_sym(hashv) else list(hashv.to_bytes(4, "big"))
    tg = be(tag, 2) if is_sym(tag) else list(tag.to_bytes(2, "big"))
    lf = be(length_field, 2) if is_sym(length_field) else list(length_field.to_bytes(2, "big"))
    tr = total if trailer is None else trailer
    trb = be(tr, 4) if is_sym(tr) else list(tr.to_bytes(4, "big"))
    return mkbytes(tbh.to_bytes(2, "big"), tbl.to_bytes(2, "big"), lf, tg, hv, line.to_bytes(4, "big"), data, b"\0" * padn, trb), total


LENS = list(range(0, 13)) + list(range(1020, 1027))
HARNESSES = [
    {"fn": "h_entry", "cases": ["L%d" % n for n in LENS], "quick_cases": ["L0", "L3", "L4", "L1023", "L1024", "L1025"],
     "timeout": {"quick": 90, "thorough": 300}},
    {"fn": "h_buffer", "cases": ["size", "second-bad", "header", "fields"], "timeout": {"quick": 120, "thorough": 400}},
    {"fn": "h_strings", "cases": ["hash", "binary", "two-files"], "timeout": {"quick": 120, "thorough": 400}},
    {"fn": "h_args", "cases": ["n%d" % n for n in (0, 3, 4, 8, 11, 20, 24)] + ["pct:0", "pct:4", "mismatch"],
     "quick_cases": ["n8", "n24", "pct:0", "mismatch", "n3"], "timeout": {"quick": 120, "thorough": 400}},
    {"fn": "h_short", "cases": ["n%d" % n for n in (0, 1, 16, 31)], "quick_cases": ["n31", "n0"], "timeout": {"quick": 90, "thorough": 300}},
]
BOUNDS = {"entry": "data length 0..12 and 1020..1026 (every alignment, both sides of the 1024 limit); the length field, the "
                   "trailing size word (32 bit) and the number of bytes missing at the end of the stream (0..6) symbolic",
          "buffer": "header size field symbolic around the real end; two entries with the second one's trailer symbolic; header "
                    "fields (version, wrap count, 4 component characters) symbolic",
          "strings": "synthetic string file (exact, two partial, five-argument, %% and no-argument strings); hash symbolic over all "
                     "32-bit values; tag symbolic; the same hash looked up in two different string files in one process",
          "arguments": "data lengths 0,3,4,8,11,20,24 with symbolic argument words"}
ASSUMPTIONS = ["open() of the string file replaced by an in-memory file (E5)"]
OUTSIDE = ["data lengths 13..1019", "arbitrary string files", "more than two entries per buffer"]

HDR_LINES = ["", "HH:MM:SS Seq  Line  Entry Data", "-------- ---- ----- ----------"]
INDENT = " " * 20


def h_entry() -> bool:
    """
    post: _
    """
    n = int(CASE[1:])
    payload = bytes((i * 13 + 5) % 256 for i in range(n))
    lf = sym_int("length_field", max(0, n - 2), n + 2)          # what the entry claims
    trailer = sym_int("trailer", 0, 0xFFFFFFFF)
    missing = sym_int("missing", 0, 6)
    buf, total = entry(lf, payload, trailer=trailer)
    filler = b"\x00\x00\x00\x10" * 4
    full = mkbytes(buf, filler)
    cut = None
    for cand in range(7):
        if missing == cand:
            cut = cand
    data = full[:len(buf) - cut] if cut else full
    avail = len(buf) - cut if cut else len(full)
    s = DataStream(data, byte_order="big", is_signed=False)
    e = trace.TraceEntry()
    try:
        ok = e.read(s)
    except Exception as ex:
        return verdict(False, obs={"exception": repr(ex)})
    # statement: the entry is accepted iff its claimed length is <= 1024, data + pad + size word fit in the
    # stream, and the size word equals the actual size
    L = None
    for cand in range(max(0, n - 2), n + 3):
        if lf == cand:
            L = cand
    padn = (-L) % 4
    need = 16 + L + padn + 4
    fits = need <= avail
    size_ok = False
    if fits and L <= 1024:
        # the size word is read from the stream at offset need-4 (may be payload / filler bytes if L != n)
        raw = [data[need - 4 + i] for i in range(4)]
        size_ok = from_be(raw) == need
    want = L <= 1024 and fits and bool(size_ok)
    conds = [bool(ok) == want]
    if want and bool(ok):
        conds += [s.index == need, e.length == L, len(e.data) == L, bytes_eq(e.data, [data[16 + i] for i in range(L)])]
    return verdict(sym_all(conds), obs={"ok": bool(ok), "want": want, "L": L, "avail": avail})


def h_buffer() -> bool:
    """
    post: _
    """
    e1, t1 = entry(4, b"\x00\x00\x00\x07", hashv=7700345 + 0)        # exact 'partial one' string
    if CASE == "size":
        e2, t2 = entry(8, b"\x00\x00\x00\x01\x00\x00\x00\x02", hashv=1200345)
        size = sym_int("size", 0, 32 + t1 + t2 + 8)
        data = mkbytes(header(size), e1, e2, b"\xAB" * 8)
        lines = run(data)
        n = 0
        if size > 32:
            n = 1
        if size > 32 + t1:
            n = 2
        # entries are read while the cursor is below the declared size
        if size > 32 + t1 + t2:
            n = 2       # what follows is not an entry (filler): reading stops at the first malformed one
        conds = [lines[0] == "Component: INFO", lines[1] == "Version: 2", numval_eq(lines[2][6:], size, 10), lines[2][:6] == "Size: ",
                 lines[3] == "Times Wrapped: 3", lines[4:7] == HDR_LINES, len(lines) == 7 + n]
        if len(lines) == 7 + n and n >= 1:
            conds.append(lines[7] == " 1:00:00 0123   562 partial one 00000007")
        if len(lines) == 7 + n and n == 2:
            conds.append(lines[8] == " 1:00:00 0123   562 exact A=00000001 B=00000002")
        return verdict(sym_all(conds), obs={"lines": lines})
    if CASE == "second-bad":
        tr = sym_int("trailer", 0, 0xFFFFFFFF)
        e2, t2 = entry(4, b"\x00\x00\x00\x09", hashv=9900345, trailer=tr)
        e3, t3 = entry(0, b"", hashv=3300222)
        data = mkbytes(header(32 + t1 + t2 + t3), e1, e2, e3)
        lines = run(data)
        good = tr == t2
        n = 3 if bool(good) else 1
        conds = [len(lines) == 7 + n, lines[7] == " 1:00:00 0123   562 partial one 00000007"]
        if bool(good) and len(lines) == 10:
            conds += [lines[8] == " 1:00:00 0123   562 partial two 00000009", lines[9] == " 1:00:00 0123   562 no args here"]
        return verdict(sym_all(conds), obs={"lines": lines})
    if CASE == "fields":
        # time stamp, sequence number and source line of an entry are shown as stored (all values)
        tbh, tbl, line = sym_int("tbh", 0, 0xFFFF), sym_int("tbl", 0, 0xFFFF), sym_int("line", 0, 99999)
        ent = mkbytes(be(tbh, 2), be(tbl, 2), b"\x00\x00\x46\x54", (3300222).to_bytes(4, "big"), be(line, 4), (20).to_bytes(4, "big"))
        lines = run(mkbytes(header(32 + 20), ent))
        from harness.C14_ilog import ts_text
        conds = [len(lines) == 8]
        if len(lines) == 8:
            ln = lines[7]
            conds += [len(ln) == 8 + 1 + 4 + 1 + 5 + 1 + len("no args here"), str_is(ln[:8], ts_text(tbh)),
                      str_is(ln[9:13], [hexdigit_cp(nib(b, h)) for b in be(tbl, 2) for h in (True, False)]),
                      numval_eq(ln[14:19].lstrip(" "), line, 10), ln[19:] == " no args here"]
        return verdict(sym_all(conds), obs={"lines": lines[7:]})
    # header fields (the 4 reserved bytes after the component name are not part of it)
    ver, wrap = sym_int("ver", 0, 255), sym_int("wrap", 0, 0xFFFFFFFF)
    comp = sym_bytes("comp", 4, 0x41, 0x5A)
    rsvd = sym_bytes("rsvd", 4)
    data = mkbytes([ver], b"\x20\x01\x42", comp, b"    \0\0\0\0", rsvd, (32 + t1).to_bytes(4, "big"), be(wrap, 4), b"\0\0\0\x40", e1)
    lines = run(data)
    conds = [len(lines) == 8]
    if len(lines) == 8:
        conds += [str_is(lines[0], [ord(c) for c in "Component: "] + [comp[i] for i in range(4)]),
                  lines[1][:9] == "Version: ", numval_eq(lines[1][9:], ver, 10),
                  lines[2] == "Size: %d" % (32 + t1), lines[3][:15] == "Times Wrapped: ", numval_eq(lines[3][15:], wrap, 10),
                  lines[7] == " 1:00:00 0123   562 partial one 00000007"]
    return verdict(sym_all(conds), obs={"lines": lines})


def h_strings() -> bool:
    """
    post: _
    """
    payload = b"\x00\x00\x00\x2A\x00\x00\x00\x2B"
    dump = [INDENT + l for l in hd.hexdump(memoryview(payload))]
    if CASE == "two-files":
        # the same hash resolved against two different string files in one process
        h = sym_int("hash", 0, 2)
        hv = [1200345, 5500999, 3300222][0]
        for k, v in enumerate([1200345, 5500999, 3300222]):
            if h == k:
                hv = v
        e1, t1 = entry(8, payload, hashv=hv)
        data = mkbytes(header(32 + t1), e1)
        other = "#hdr\n%d||other file text %%08X||z.cpp(1)\n" % 1200345
        with patched(trace, open=lambda p, *a, **k: _F(string_file())):
            la = trace.parse_trace_data(data, "/fixtures/A")
        with patched(trace, open=lambda p, *a, **k: _F(other)):
            lb = trace.parse_trace_data(data, "/fixtures/B")
        # (two arguments for one specifier: the raw format is shown)
        wantb = {1200345: [" 1:00:00 0123   562 other file text %08X"],
                 5500999: [" 1:00:00 0123   562 No trace string found with hash value 5500999"] + dump,
                 3300222: [" 1:00:00 0123   562 No trace string found with hash value 3300222"] + dump}[hv]
        return verdict(lb[7:] == wantb, obs={"first": la[7:], "second": lb[7:]})
    hashv = sym_int("hash", 0, 0xFFFFFFFF)
    tag = sym_int("tag", 0, 0xFFFF) if CASE == "binary" else 0x4654
    if CASE == "binary":
        assume(sym_any([hashv == 1200345, hashv == 3300222, hashv == 424242]))
    e1, t1 = entry(8, payload, hashv=hashv, tag=tag)
    data = mkbytes(header(32 + t1), e1)
    try:
        lines = run(data)
    except Exception as ex:
        return verdict(False, obs={"exception": repr(ex)})
    binary = tag == 0x4644
    binary = bool(binary)
    a8 = "0000002A" if not binary else None
    # oracle: exact hash -> that string; else the LAST string that agrees modulo 100000 -> warning + dump; else notice + dump
    exact = None
    for hsh, fmt, loc in STRINGS + [(12, "spaced", "loc.cpp(1)")]:
        if hashv == hsh:
            exact = (hsh, fmt, loc)
    partial = None
    if exact is None:
        for hsh, fmt, loc in STRINGS + [(12, "spaced", "loc.cpp(1)")]:
            if hashv % 100000 == hsh % 100000:
                partial = (hsh, fmt, loc)
    head = " 1:00:00 0123   562 "
    ts = exact or partial

    def msg(fmt):
        if binary:
            args = ()
        else:
            args = (0x2A, 0x2B)
        try:
            return fmt % args
        except Exception:
            return fmt
    conds = []
    if ts is not None:
        exp = [head + msg(ts[1])]
        if partial is not None:
            exp.append(INDENT + "Warning: Partial match with trace string from " + ts[2])
        if binary or partial is not None:
            exp += dump
        conds.append(lines[7:] == exp)
    else:
        conds.append(len(lines) == 8 + len(dump))
        if len(lines) == 8 + len(dump):
            pre = head + "No trace string found with hash value "
            conds += [lines[7][:len(pre)] == pre, numval_eq(lines[7][len(pre):], hashv, 10), lines[8:] == dump]
    return verdict(sym_all(conds), obs={"lines": lines[7:]})


def h_args() -> bool:
    """
    post: _
    """
    if CASE.startswith("pct"):
        n = int(CASE.split(":")[1])
        w = sym_bytes("w", n)
        e1, t1 = entry(n, w, hashv=4400111)
        lines = run(mkbytes(header(32 + t1), e1))
        # "%%" is a literal per cent sign when the arguments fit (none needed); with surplus arguments the raw format
        want = "battery at 100%" if n < 4 else "battery at 100%%"
        return verdict(lines[7:] == [" 1:00:00 0123   562 " + want], obs={"lines": lines[7:]})
    if CASE == "mismatch":
        w = sym_bytes("w", 4)
        e1, t1 = entry(4, w, hashv=1200345)              # two specifiers, one argument: the raw format
        lines = run(mkbytes(header(32 + t1), e1))
        return verdict(lines[7:] == [" 1:00:00 0123   562 exact A=%08X B=%08X"], obs={"lines": lines[7:]})
    n = int(CASE[1:])
    w = sym_bytes("w", n)
    nargs = min(n // 4, 5)
    hv = {0: 3300222, 1: 7700345, 2: 1200345, 5: 5500999}.get(nargs, 5500999)
    e1, t1 = entry(n, w, hashv=hv)
    try:
        lines = run(mkbytes(header(32 + t1), e1))
    except Exception as ex:
        return verdict(False, obs={"exception": repr(ex)})
    head = [ord(c) for c in " 1:00:00 0123   562 "]

    def hx(k):
        return [hexdigit_cp(nib(w[4 * k + i], h)) for i in range(4) for h in (True, False)]
    if nargs == 0:
        exp = head + [ord(c) for c in "no args here"]
    elif nargs == 1:
        exp = head + [ord(c) for c in "partial one "] + hx(0)
    elif nargs == 2:
        exp = head + [ord(c) for c in "exact A="] + hx(0) + [ord(c) for c in " B="] + hx(1)
    elif nargs == 5:
        exp = head + [ord(c) for c in "five "] + hx(0) + [32] + hx(1) + [32] + hx(2) + [32] + hx(3) + [32] + hx(4)
    else:
        exp = None      # 3 or 4 arguments for the five-specifier string: raw format
    conds = [len(lines) == 8]
    if len(lines) == 8:
        if exp is None:
            conds.append(lines[7] == " 1:00:00 0123   562 five %08X %08X %08X %08X %08X")
        else:
            conds.append(str_is(lines[7], exp))
    return verdict(sym_all(conds), obs={"lines": lines[7:]})


def h_short() -> bool:
    """
    post: _
    """
    n = int(CASE[1:])
    w = sym_bytes("w", min(n, 2))
    data = mkbytes(b"\x02\x20\x01\x42INFO"[:max(0, n - len(w))], w)[:n] if n else b""
    data = mkbytes(bytes((i * 3) % 256 for i in range(n - len(w))), w)
    lines = run(memoryview(data) if not is_sym(data) else data)
    conds = [lines[0] == "Unable to parse trace data.", len(lines) == 1 + (n + 15) // 16]
    back = hd.parse(lines[1:])
    conds += [len(back) == n, bytes_eq(back, data) if len(back) == n else False]
    return verdict(sym_all(conds), obs={"lines": lines})
