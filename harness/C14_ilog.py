"""C14 - ILOG decoding reports every entry with the first matching table message."""
import re

from vlib.api import *
from vlib.stubs import patched
from io_drawer import ilog
from io_drawer.drawer_type import MEX_DRAWER_TYPE, NIMITZ_DRAWER_TYPE

FUNCTIONS = ["io_drawer.ilog.parse_ilog_data", "PTETable.get_entry/_parse_header_file/_add_entry",
             "PTETableEntry.matches/_is_exact_match/_is_reported_error_pte/get_message", "io_drawer.utils.format_timestamp"]

# synthetic table with overlapping patterns (an earlier entry that matches only with the reported flag cleared,
# later ones that match the raw value), parameters, a %-mismatch, an F-nibble pattern, an escaped quote
FIX = [
    ("E3087704", "Fan Missing - System Fan 1", "", "fan.cpp", 10),
    ("E30C77**", "Reported raw fan fault %c", "4", "fan.cpp", 20),
    ("E308****", "Generic fan %d fault byte %02X", "3, 4", "fan.cpp", 30),
    ("E3******", "Any E3 error", "", "fan.cpp", 40),
    ("E2**26**", "Status %02X unit %d", "2, 4", "st.cpp", 45),
    ("F20C****", "F pattern %d %d", "3, 4", "f.cpp", 50),
    ("F3087704", "Debug marker A", "", "f.cpp", 55),
    ("0200****", "PEROM level = %c%c", "3, 4", "states.cpp", 60),
    ("01040000", "Power on \\\"complete\\\"", "", "states.cpp", 70),
    ("10**00**", "Mismatch %d %d %d", "2", "m.cpp", 80),
    ("1001****", "Out of range params %d", "0, 5, 3, 9", "m.cpp", 90),
    ("30******", "Duty cycle now %d%", "4", "pc.cpp", 95),
    ("31******", "Mode %y set, margin 5%", "3", "pc.cpp", 96),
    ("33******", "Load at 100%% now", "", "pc.cpp", 97),
    ("34******", "Duty %d%% of max", "4", "pc.cpp", 98),
    ("15a4c0de", "Lower case exact", "", "lc.cpp", 99),
]


def fix_header():
    lines = ["#define PTE_TABLE_SIZE 12", "", "static struct pte_entry_struct static_pte_entry_table[PTE_TABLE_SIZE] = ", "{"]
    for pat, msg, params, f, ln in FIX:
        lines.append('  { "%s", "%s", {%s}, "%s", %d },' % (pat, msg, params, f, ln))
    lines += ['  { ""        , "The End" }', "};", '  { "FFFFFFFF", "after the table", {}, "x.cpp", 1 },']
    return "\n".join(lines) + "\n"


class _F:
    def __init__(self, text):
        self.lines = text.splitlines(True)

    def __iter__(self):
        return iter(self.lines)

    def __enter__(self):
        return self

    def __exit__(self, *a):
        return False


def shipped_patterns():
    pats = []
    for dt in (MEX_DRAWER_TYPE, NIMITZ_DRAWER_TYPE):
        for line in open(dt.get_header_file_path(), errors="replace"):
            m = ilog.TBL_ENTRY_RE.fullmatch(line)
            if m:
                pats.append(m.group(1))
    seen, out = set(), []
    for p in pats:
        if p not in seen:
            seen.add(p)
            out.append(p)
    return out


PATS = shipped_patterns()          # at import time: not traced
BATCH = 40
MATCH_CASES = ["pats:%d" % i for i in range(0, max(len(PATS), 1), BATCH)] if PATS else []
HARNESSES = [
    {"fn": "h_frame", "cases": ["e1:t0", "e1:t3", "e2:t0", "e2:t7", "e0:t5", "zero", "ffff", "pair:ru", "pair:ur"],
     "quick_cases": ["e1:t3", "e2:t0", "zero", "ffff", "pair:ru"],
     "timeout": {"quick": 120, "thorough": 400}},
    {"fn": "h_timestamp", "cases": ["h%d" % h for h in range(19)] + ["ffff"], "quick_cases": ["h0", "h9", "h10", "h18", "ffff"],
     "timeout": {"quick": 90, "thorough": 300}},
    {"fn": "h_first_match", "cases": ["hi:%X" % n for n in (0x0, 0x1, 0xE, 0xF)] + ["stub"], "quick_cases": ["hi:0", "hi:E", "hi:F", "stub"], "timeout": {"quick": 120, "thorough": 400}},
    {"fn": "h_message", "cases": ["E308", "0200", "10m", "1001", "F20C", "quote", "E226", "30pc", "31y", "33pp", "34pp", "15lc"], "quick_cases": ["E308", "1001", "0200", "E226", "30pc", "31y", "33pp", "34pp", "15lc"],
     "timeout": {"quick": 90, "thorough": 300}},
    {"fn": "h_matches", "cases": MATCH_CASES, "quick_cases": MATCH_CASES[:2] + MATCH_CASES[-1:], "timeout": {"quick": 120, "thorough": 600}},
]
BOUNDS = {"framing": "0..2 entries followed by a tail of 0..7 bytes; timestamp, sequence number and PTE of one entry symbolic "
                     "(all values); all-zero and 0xFFFF-timestamp entries",
          "first match": "synthetic table of 10 overlapping patterns with the PTE symbolic per leading nibble; a table of 6 "
                         "stub entries whose match results are symbolic booleans",
          "matches": "every distinct pattern of both shipped tables (%d), PTE symbolic over all 32-bit values" % len(PATS),
          "message": "parameter bytes symbolic for 6 synthetic entries (params, %%c, mismatch, out-of-range params, escaped quote, descriptions that are not valid format strings)"}
ASSUMPTIONS = ["open() of the header file replaced by an in-memory file for the synthetic table (E5)",
               "CrossHair's model of re.fullmatch with IGNORECASE on a symbolic 8-character string"]
OUTSIDE = ["arbitrary tables (regex compilation of a symbolic pattern)", "more than 2 entries per buffer"]


def ts_text(ts):
    """expected 8 code points for the time stamp"""
    if ts == 0xFFFF:
        return [45] * 8
    hh = ts // 3600                      # hours, minutes, seconds of a plain second counter
    mm = (ts - hh * 3600) // 60
    ss = ts - hh * 3600 - mm * 60
    hcp = [sym_ite(hh >= 10, 48 + (hh // 10) % 10, 32), 48 + hh % 10]
    return hcp + [58, 48 + (mm // 10) % 10, 48 + mm % 10, 58, 48 + (ss // 10) % 10, 48 + ss % 10]


def nibble_match(pat, pte_bytes):
    """wild-card pattern (8 chars, '*' = any one hex digit) against the 4 PTE bytes: one boolean"""
    conds = []
    for i, ch in enumerate(pat):
        if ch == "*":
            continue
        n = nib(pte_bytes[i // 2], i % 2 == 0)
        try:
            conds.append(n == int(ch, 16))
        except ValueError:
            return False
    return sym_all(conds)


def clear_reported(b):
    """PTE bytes with the reported flag (0x00040000) cleared"""
    return [b[0], b[1] - sym_ite(bit_set(b[1], 2), 4, 0), b[2], b[3]]


def is_reported_error(b):
    return sym_all([nib(b[0], True) == 0xE, bit_set(b[1], 2)])


def spec_matches(pat, b):
    if len(pat) != 8:
        return False
    return sym_any([nibble_match(pat, b), sym_all([is_reported_error(b), nibble_match(pat, clear_reported(b))])])


def run_fixture(data):
    with patched(ilog, open=lambda p, *a, **k: _F(fix_header())):
        return ilog.parse_ilog_data(data, "/fixtures/pte.h")


HEAD = ["hh:mm:ss seq  pppppppp description", "-------- ---- -------- ------------------------------------"]


def h_frame() -> bool:
    """
    post: _
    """
    if CASE.startswith("pair"):
        # both forms of one error PTE (reported flag set / clear) in one ILOG: each line has its own first match
        lo = sym_bytes("lo", 2)
        rep, unrep = [0xE3, 0x0C, lo[0], lo[1]], [0xE3, 0x08, lo[0], lo[1]]
        order = [rep, unrep] if CASE.endswith("ru") else [unrep, rep]
        data = mkbytes(b"\x00\x01\x00\x02", order[0], b"\x00\x02\x00\x03", order[1])
        try:
            lines = run_fixture(data)
        except Exception as e:
            return verdict(False, obs={"exception": repr(e)})
        conds = [len(lines) == 4]
        if len(lines) == 4:
            for ln, b in zip(lines[2:], order):
                idx = None
                for k2, (pat, msg, params, f, l2) in enumerate(FIX):
                    if spec_matches(pat, b):
                        idx = k2
                        break
                suffix = " - PEL entry created" if bool(is_reported_error(b)) else ""
                desc = ln[23:]
                conds.append(desc.endswith(suffix) if suffix else not desc.endswith(" - PEL entry created"))
                conds.append(doc_eq(desc[:len(desc) - len(suffix)] if suffix else desc,
                                    expected_message(idx, b) if idx is not None else "Undefined"))
        return verdict(sym_all(conds), obs={"lines": lines})
    if CASE in ("zero", "ffff"):
        # an entry is skipped only if ALL 8 bytes are zero
        ts = sym_int("ts", 0, 0xFFFF) if CASE == "zero" else 0xFFFF
        seq = sym_int("seq", 0, 1)
        pte0 = sym_int("p", 0, 1)
        data = mkbytes(be(ts, 2) if CASE == "zero" else b"\xFF\xFF", [0, seq], [0, 0, 0, pte0], b"\x00\x01\x00\x02\x01\x04\x00\x00")
        lines = run_fixture(data)
        allzero = sym_all([ts == 0, seq == 0, pte0 == 0])
        conds = [lines[:2] == HEAD, len(lines) == (3 if bool(allzero) else 4)]
        if len(lines) == 4:
            conds += [str_is(lines[2][:8], ts_text(ts)), lines[2][8:23] == " %04X %08X " % (seq, pte0)]
        conds.append(lines[-1] == " 0:00:01 0002 01040000 Power on \"complete\"")
        return verdict(sym_all(conds), obs={"lines": lines})
    ne, tail = int(CASE[1]), int(CASE.split(":t")[1])
    ts, seq = sym_int("ts", 0, 0xFFFF), sym_int("seq", 0, 0xFFFF)
    pte = sym_bytes("pte", 4)
    assume(sym_any([ts != 0, seq != 0, pte[0] != 0, pte[1] != 0, pte[2] != 0, pte[3] != 0]))
    assume(nib(pte[0], True) == 7)          # a value range no fixture pattern covers: description is 'Undefined'
    entries = [mkbytes(be(ts, 2), be(seq, 2), pte)] if ne >= 1 else []
    if ne == 2:
        entries.append(b"\x0E\x10\x00\x07\x01\x04\x00\x00")
    data = mkbytes(*(entries + [b"\xAA" * tail]))
    try:
        lines = run_fixture(data)
    except Exception as e:
        return verdict(False, obs={"exception": repr(e)})
    conds = [lines[:2] == HEAD, len(lines) == 2 + ne]
    if len(lines) == 2 + ne and ne >= 1:
        ln = lines[2]
        conds += [len(ln) == 8 + 1 + 4 + 1 + 8 + 1 + len("Undefined"), str_is(ln[:8], ts_text(ts)), ln[8] == " ",
                  numval_eq(ln[9:13], seq, 16), ln[13] == " ", numval_eq(ln[14:22], from_be([pte[i] for i in range(4)]), 16),
                  ln[22:] == " Undefined"]
        # upper-case digits
        conds.append(str_is(ln[9:13], [hexdigit_cp(nib(b, h)) for b in be(seq, 2) for h in (True, False)]))
        if ne == 2:
            conds.append(lines[3] == " 1:00:00 0007 01040000 Power on \"complete\"")
    return verdict(sym_all(conds), obs={"lines": lines})


def h_first_match() -> bool:
    """
    post: _
    """
    if CASE == "stub":
        # get_entry over entries whose matches() results are arbitrary booleans: the least matching index
        res = [bool(sym_bool("m%d" % i)) for i in range(6)]

        class _E:
            def __init__(self, i):
                self.i = i

            def matches(self, pte):
                return res[self.i]
        with patched(ilog, open=lambda p, *a, **k: _F(fix_header())):
            t = ilog.PTETable("/fixtures/pte.h")
        t.entries = [_E(i) for i in range(6)]
        got = t.get_entry(0x12345678)
        want = None
        for i in range(6):
            if res[i]:
                want = i
                break
        return verdict((got is None and want is None) or (got is not None and got.i == want), obs={"got": None if got is None else got.i})
    hi = int(CASE.split(":")[1], 16)
    pte = sym_bytes("pte", 4)
    assume(nib(pte[0], True) == hi)
    data = mkbytes(b"\x00\x01\x00\x02", pte)
    try:
        lines = run_fixture(data)
    except Exception as e:
        return verdict(False, obs={"exception": repr(e)})
    b = [pte[i] for i in range(4)]
    want = None
    for idx, (pat, msg, params, f, ln) in enumerate(FIX):
        if spec_matches(pat, b):
            want = idx
            break
    conds = [len(lines) == 3]
    if len(lines) == 3:
        desc = lines[2][23:]
        rep = bool(is_reported_error(b))
        suffix = " - PEL entry created" if rep else ""
        if want is None:
            conds.append(desc == "Undefined")
        else:
            conds.append(desc.endswith(suffix) if suffix else not desc.endswith(" - PEL entry created"))
            body = desc[:len(desc) - len(suffix)] if suffix else desc
            conds.append(doc_eq(body, expected_message(want, b)))
    return verdict(sym_all(conds), obs={"lines": lines, "want": want})


def expected_message(idx, b):
    """message of fixture entry idx for PTE bytes b (independent rendering)"""
    pat, msg, params, f, ln = FIX[idx]
    msg = msg.strip().replace('\\"', '"')
    ps = [int(p) for p in params if p.isdecimal()]
    ps = [p for p in ps if 1 <= p <= 4]
    vals = [b[p - 1] for p in ps]
    specs = re.findall(r"%(?:0?\d*)[dcxX]", msg)
    if len(specs) != len(vals) or "%" in re.sub(r"%(?:0?\d*)[dcxX]|%%", "", msg):
        return msg                      # format / argument mismatch or not a valid format at all: the raw format
    out, pos, k = [], 0, 0
    for m in re.finditer(r"%%|%(0?)(\d*)([dcxX])", msg):
        out += [ord(c) for c in msg[pos:m.start()]]
        pos = m.end()
        if m.group(0) == "%%":
            out.append(37)
            continue
        v = vals[k]
        k += 1
        zero, width, typ = m.group(1) == "0", int(m.group(2) or 0), m.group(3)
        if typ == "c":
            out.append(v)
        elif typ == "X" and zero and width == 2:
            out += [hexdigit_cp(nib(v, True)), hexdigit_cp(nib(v, False))]
        elif typ == "d" and not width:
            # decimal without padding: 1..3 digits
            if v >= 100:
                out += [48 + v // 100, 48 + (v // 10) % 10, 48 + v % 10]
            elif v >= 10:
                out += [48 + v // 10, 48 + v % 10]
            else:
                out += [48 + v]
        else:
            raise AssertionError("fixture uses an unmodelled conversion")
    out += [ord(c) for c in msg[pos:]]
    return mkstr(out)


def h_message() -> bool:
    """
    post: _
    """
    base = {"E308": 0xE3080000, "0200": 0x02000000, "10m": 0x10000000, "1001": 0x10010000, "F20C": 0xF20C0000, "quote": 0x01040000,
            "E226": 0xE2002600, "30pc": 0x30110000, "31y": 0x31110000, "33pp": 0x33000000, "34pp": 0x34000000, "15lc": 0x15A40000}[CASE]
    lo = sym_bytes("lo", 2)
    b = [base >> 24, (base >> 16) & 0xFF, lo[0], lo[1]]
    if CASE == "10m":
        b = [0x10, lo[0], 0x00, lo[1]]
    if CASE == "E226":
        b = [0xE2, lo[0], 0x26, lo[1]]           # parameter byte 2 carries the reported flag
    if CASE == "quote":
        b = [0x01, 0x04, 0x00, 0x00]
    if CASE == "15lc":
        b = [0x15, 0xA4, 0xC0, lo[1]]           # the table spells this wildcard-free pattern (15a4c0de) in lower case
    if CASE == "0200":
        assume(sym_all([lo[0] >= 0x20, lo[0] <= 0x7E, lo[1] >= 0x20, lo[1] <= 0x7E]))
    data = mkbytes(b"\x00\x01\x00\x02", b)
    try:
        lines = run_fixture(data)
    except Exception as e:
        return verdict(False, obs={"exception": repr(e)})
    idx = None
    for k2, (pat, msg, params, f, ln) in enumerate(FIX):
        if spec_matches(pat, b):
            idx = k2
            break
    conds = [len(lines) == 3, idx is not None or CASE == "15lc"]
    if len(lines) == 3 and idx is None and CASE == "15lc":
        conds.append(lines[2][23:] == "Undefined")
    if len(lines) == 3 and idx is not None:
        suffix = " - PEL entry created" if bool(is_reported_error(b)) else ""
        desc = lines[2][23:]
        conds.append(desc.endswith(suffix))
        conds.append(doc_eq(desc[:len(desc) - len(suffix)] if suffix else desc, expected_message(idx, b)))
    return verdict(sym_all(conds), obs={"lines": lines, "entry": idx})


def h_matches() -> bool:
    """
    post: _
    """
    start = int(CASE.split(":")[1])
    pte = sym_bytes("pte", 4)
    b = [pte[i] for i in range(4)]
    v = from_be(b)
    pats = PATS_FOR(start)
    k = sym_int("k", 0, len(pats) - 1)        # one pattern per path (the pattern index is a solver-resolved fork)
    pat = pats[0]
    for cand in range(len(pats)):
        if k == cand:
            pat = pats[cand]
    e = ilog.PTETableEntry(pat, "m", (), "f", 1)
    got = e.matches(v)
    return verdict(bool(got) == bool(spec_matches(pat, b)), obs={"pattern": pat, "got": bool(got)})


def PATS_FOR(start):
    pats = shipped_patterns() if not PATS else PATS
    return pats[start:start + BATCH]


def h_timestamp() -> bool:
    """
    post: _
    """
    # inverse check of the time-stamp rendering: the text read back as H:MM:SS denotes the counter value
    from io_drawer.utils import format_timestamp
    if CASE == "ffff":
        return verdict(format_timestamp(0xFFFF) == "--------", obs={})
    h = int(CASE[1:])
    ts = sym_int("ts", h * 3600, min(h * 3600 + 3599, 0xFFFE))
    out = format_timestamp(ts)
    conds = [len(out) == 8, out[2] == ":", out[5] == ":"]
    if len(out) == 8:
        d = [ord(out[i]) - 48 for i in (0, 1, 3, 4, 6, 7)]
        blank = ord(out[0]) == 32
        H = sym_ite(blank, 0, d[0]) * 10 + d[1]
        M, S = d[2] * 10 + d[3], d[4] * 10 + d[5]
        conds += [sym_any([blank, sym_all([d[0] >= 1, d[0] <= 9])]), H == h, M >= 0, M < 60, S >= 0, S < 60,
                  sym_all([x >= 0 for x in d[1:]]), sym_all([x <= 9 for x in d[1:]]), H * 3600 + M * 60 + S == ts]
    return verdict(sym_all(conds), obs={"out": out})
