"""C13 - hex dumps are lossless."""
from vlib.api import *
from vlib.stubs import patched
from pel import hexdump as hd
from pel.peltool import peltool
from io_drawer import dump as iod

FUNCTIONS = ["pel.hexdump.hexdump", "pel.hexdump.parse", "peltool.printPELInHexFormat", "io_drawer.dump.HEX_DUMP_LINE_FORMATS", "io_drawer.dump.parse_dump_file"]

FILL = bytes((37 * i + 11) % 256 for i in range(16400))  # mixes printable / non-printable / hex letters

RT_CASES = []
for L in (1, 2, 16, 17, 32, 33):
    for p in (0, 3, 14, 15, 16, 30, 31):
        if p + 2 <= L:
            RT_CASES.append("L%d:p%d" % (L, p))
        elif p + 1 == L:
            RT_CASES.append("L%d:p%d:w1" % (L, p))
RT_CASES = sorted(set(RT_CASES + ["L0:p0:w0", "L1:p0:w1"]))
FMT_CASES = ["f%d:L%d:p%d:w1:e%d" % (f, L, p, e) for f in (0, 1) for (L, p) in ((1, 0), (16, 15), (17, 16), (17, 3), (33, 32), (33, 15), (20, 19))
             for e in (0, 1, 2, 3)] + ["f0:L17:p15:w2:e0", "f1:L17:p15:w2:e0", "f0:L40:p20:w1:e4", "f1:L40:p20:w1:e4", "f1:L48:p31:w1:e4"]

HARNESSES = [
    {"fn": "h_shape", "cases": ["sym", "sym4", "16/4", "8/2", "16/5", "7/2", "4/8", "1/1", "256/256", "10/4", "16/256"],
     "quick_cases": ["sym4", "16/5", "10/4", "256/256", "16/256", "1/1"], "timeout": {"quick": 90, "thorough": 300}},
    {"fn": "h_two_layouts", "cases": ["sym"], "timeout": {"quick": 90, "thorough": 300}},
    {"fn": "h_roundtrip", "cases": RT_CASES, "quick_cases": ["L33:p15", "L17:p15", "L2:p0", "L0:p0:w0", "L33:p31"],
     "timeout": {"quick": 90, "thorough": 300}},
    {"fn": "h_addr", "cases": ["default", "f0"], "timeout": {"quick": 90, "thorough": 300}},
    {"fn": "h_formats", "cases": FMT_CASES, "quick_cases": ["f1:L40:p20:w1:e4", "f0:L17:p16:w1:e2", "f1:L17:p16:w1:e1", "f0:L33:p32:w1:e0", "f1:L20:p19:w1:e3", "f1:L1:p0:w1:e0", "f0:L16:p15:w1:e0"],
     "timeout": {"quick": 90, "thorough": 300}},
    {"fn": "h_dumpfile", "cases": ["f0:L40:u1:c0:pre", "f1:L37:u0:c1:pre", "f0:L23:u0:c1", "f1:L40:u1:c0"], "quick_cases": ["f0:L40:u1:c0:pre", "f1:L37:u0:c1:pre"],
     "timeout": {"quick": 90, "thorough": 300}},
    {"fn": "h_hexdisplay", "cases": ["L17:p15", "L33:p0", "L40:p31"], "quick_cases": ["L17:p15"],
     "timeout": {"quick": 90, "thorough": 300}},
    # a file larger than 16 KiB (1025 dump lines traced per path: thorough tier only)
    {"fn": "h_hexdisplay", "cases": ["L16400:p16399:w1"], "tiers": ["thorough"], "timeout": {"thorough": 1500}, "per_path_timeout": 400},
]
BOUNDS = {"shape": "bytes_per_line, bytes_per_chunk symbolic in 1..6 with data length 0..2*bpl+1, plus 9 concrete layouts "
                   "with symbolic length; data bytes concrete",
          "round trip": "lengths 0,1,2,16,17,32,33; a window of 2 symbolic bytes (all 65536 values) at catalogue positions "
                        "covering every line position class and the short last line; other bytes a fixed mixed filler",
          "address": "one line whose 8-digit (default) / 4-digit (BMC format) address is symbolic over all values",
          "formats": "both I/O-drawer formats; 1 symbolic byte (2 in two cases) at catalogue positions, symbolic hex-digit "
                     "case, short last line cut or blank-padded, one comment or blank line at a symbolic position, or "
                     "lines with their trailing newline, or a second row that repeats the first one", "hex display": "PEL files of 17, 33, 40 and 16400 bytes, 2 symbolic bytes"}
ASSUMPTIONS = ["print replaced by a recorder in h_hexdisplay (module-attribute stub)"]
OUTSIDE = ["layouts other than those listed", "three or more interacting special bytes", "data longer than 40 bytes"]


def _window(L, p, w):
    sym = sym_bytes("w", w)
    return mkbytes(FILL[:p], sym, FILL[p + w:L]), sym


def _parse_case():
    parts = CASE.split(":")
    parts = [x for x in parts if not x.startswith(("f", "e"))]
    L, p = int(parts[0][1:]), int(parts[1][1:])
    w = int(parts[2][1:]) if len(parts) > 2 else 2
    return L, p, w


def h_shape() -> bool:
    """
    post: _
    """
    if CASE.startswith("sym"):
        top = 4 if CASE == "sym4" else 6
        sbpl, sbpc = sym_int("bpl", 1, top), sym_int("bpc", 1, top)
        # hexdump() computes math.ceil(bpl / bpc) in floating point; the layout is therefore decided
        # by solver-resolved forks here, one path per layout, before the call
        bpl = bpc = None
        for a in range(1, top + 1):
            if sbpl == a:
                bpl = a
            if sbpc == a:
                bpc = a
        maxlen = 2 * top + 1
    else:
        bpl, bpc = [int(x) for x in CASE.split("/")]
        maxlen = min(2 * bpl + 1, 520)
    if maxlen > 64:
        # large layouts: the lengths around the line boundaries
        opts = [0, 1, bpl - 1, bpl, bpl + 1, 2 * bpl, 2 * bpl + 1]
        li = sym_int("Li", 0, len(opts) - 1)
        L = opts[0]
        for k, v in enumerate(opts):
            if li == k:
                L = v
    else:
        L = sym_int("L", 0, maxlen)
        assume(L <= 2 * bpl + 1)
    data = (FILL * 9)[:maxlen]
    try:
        lines = hd.hexdump(memoryview(data[:L]), bpl, bpc)
    except Exception as e:
        return verdict(False, obs={"exception": repr(e)})
    nlines = (L + bpl - 1) // bpl
    conds = [len(lines) == nlines]
    width = None
    for i, ln in enumerate(lines):
        if width is None:
            width = len(ln)
        conds.append(len(ln) == width)
        conds.append(ln[:8] == "%08X" % (i * bpl))
        # hex column: every byte of the line appears, in order, as two upper-case digits
        digits = "".join(ch for ch in ln[8:len(ln) - bpl] if ch != " ")
        conds.append(digits == data[i * bpl:min(L, (i + 1) * bpl)].hex().upper())
    return verdict(sym_all(conds), obs={"lines": lines})


def h_roundtrip() -> bool:
    """
    post: _
    """
    L, p, w = _parse_case()
    data, sym = _window(L, p, w)
    try:
        lines = hd.hexdump(data)
        back = hd.parse(lines)
    except Exception as e:
        return verdict(False, obs={"exception": repr(e)})
    conds = [len(lines) == (L + 15) // 16, len(back) == L]
    if len(back) == L:
        conds.append(bytes_eq(back, data))
    for ln in lines:
        conds.append(len(ln) == len(hd.DEFAULT_LINE_FORMAT))
    return verdict(sym_all(conds), obs={"lines": lines, "back": bytes(back) if not is_sym(back) else back})


def h_addr() -> bool:
    """
    post: _
    """
    # a dump line at an arbitrary address: the address digits must not decide whether the line is parsed
    body = FILL[:16]
    if CASE == "default":
        a = sym_int("a", 0, 0xFFFFFFFF)
        ab = be(a, 4)
        cps = []
        for b in ab:
            cps += [hexdigit_cp(nib(b, True)), hexdigit_cp(nib(b, False))]
        tail = hd.hexdump(body)[0][8:]
        line = mkstr(cps + [ord(c) for c in tail])
        back = hd.parse([line])
    else:
        up = sym_bool("upper")
        a = sym_int("a", 0, 0xFFFF)
        ab = be(a, 2)
        cps = []
        for b in ab:
            hi, lo = nib(b, True), nib(b, False)
            cps += [sym_ite(up, hexdigit_cp(hi, True), hexdigit_cp(hi, False)),
                    sym_ite(up, hexdigit_cp(lo, True), hexdigit_cp(lo, False))]
        hx = body.hex().upper()
        tail = ":  " + " ".join(hx[i:i + 8] for i in range(0, 32, 8)) + "  <" + "." * 16 + ">"
        line = mkstr(cps + [ord(c) for c in tail])
        back = hd.parse([line], iod.HEX_DUMP_LINE_FORMATS[0])
    return verdict(sym_all([len(back) == 16, bytes_eq(back, body) if len(back) == 16 else False]), obs={"line": line})


def _render(fmt, data, upper, cut_last):
    """the bytes rendered in an I/O-drawer format (harness-side statement of the format)"""
    lines = []
    for off in range(0, len(data), 16):
        chunk = [data[i] for i in range(off, min(off + 16, len(data)))]
        cps, di, ai, ci = [], 0, 0, 0
        naddr = fmt.count("A")
        last_data_col = 0
        for col, ch in enumerate(fmt):
            if ch == "A":
                shift = 4 * (naddr - 1 - ai)
                cps.append(ord("%X" % ((off >> shift) & 0xF)))
                ai += 1
            elif ch == "D":
                bi = di // 2
                if bi < len(chunk):
                    d = nib(chunk[bi], di % 2 == 0)
                    cps.append(sym_ite(upper, hexdigit_cp(d, True), hexdigit_cp(d, False)))
                    last_data_col = col
                else:
                    cps.append(32)
                di += 1
            elif ch == "C":
                if ci < len(chunk):
                    b = chunk[ci]
                    cps.append(sym_ite(sym_all([b >= 0x20, b < 0x7F]), b, 46))
                else:
                    cps.append(32)
                ci += 1
            else:
                cps.append(ord(ch))
        if len(chunk) < 16 and cut_last:
            cps = cps[:last_data_col + 1]
        lines.append(mkstr(cps))
    return lines


def h_formats() -> bool:
    """
    post: _
    """
    f = int(CASE[1])
    fmt = iod.HEX_DUMP_LINE_FORMATS[f]
    L, p, w = _parse_case()
    data, sym = _window(L, p, w)
    upper, cut = sym_bool("upper"), sym_bool("cut")
    extra = int(CASE.split(":e")[1])     # 0 none, 1 blank line, 2 comment line, 3 lines keep their trailing newline, 4 repeated row
    if extra == 4:
        # the second 16-byte row equals the first one except for the symbolic byte (which may take the same value too)
        data = mkbytes(FILL[:16], FILL[:p - 16], sym, FILL[p - 15:16], FILL[32:L])
    pos = sym_int("pos", 0, (L + 15) // 16) if extra in (1, 2) else 0
    cut_c = bool(cut)
    lines = _render(fmt, data, upper, cut_c)
    ins = None
    if extra == 1:
        ins = ""
    elif extra == 2:
        ins = "# dump of drawer 7 follows\n"
    if ins is not None:
        for cand in range(len(lines) + 1):
            if pos == cand:
                lines = lines[:cand] + [ins] + lines[cand:]
                break
    elif extra == 3:
        lines = [ln + "\n" for ln in lines]
    try:
        back = hd.parse(lines, fmt)
    except Exception as e:
        return verdict(False, obs={"exception": repr(e)})
    ok = len(back) == L
    return verdict(sym_all([ok, bytes_eq(back, data) if ok else False]), obs={"lines": lines})


def h_dumpfile() -> bool:
    """
    post: _
    """
    # a whole dump file (either format, comment / blank lines first) through io_drawer.dump.parse_dump_file gives the
    # bytes it was rendered from: the body is C17's file harness
    from harness import C17_dump
    return C17_dump.file_body(CASE)


def h_hexdisplay() -> bool:
    """
    post: _
    """
    L, p, w = _parse_case()
    data, sym = _window(L, p, w)
    printed = []

    def rec(*a, **k):
        printed.append((" ".join(str(x) for x in a) if len(a) != 1 else a[0], k.get("file")))

    try:
        with patched(peltool, print=rec):
            peltool.printPELInHexFormat(data)
    except Exception as e:
        return verdict(False, obs={"exception": repr(e)})
    texts = [t for t, f in printed]
    conds = [all(f is None for t, f in printed), len(texts) >= 2]
    if len(texts) >= 2:
        conds.append(texts[0] == "-------------- PEL Begin  ----------------")
        conds.append(texts[-1] == "-------------- PEL End    ----------------")
        body = texts[1:-1]
        if L > 1000:
            # large file: the lines that do not contain the symbolic byte are concrete - parse them at
            # CPython speed, only the line with the symbolic byte symbolically
            nl = (L + 15) // 16
            conds.append(len(body) == nl)
            if len(body) == nl:
                k = p // 16
                head = untraced(hd.parse, [str(x) for x in body[:k]])
                tail = untraced(hd.parse, [str(x) for x in body[k + 1:]])
                mid = hd.parse([body[k]])
                conds += [bytes(head) == FILL[:16 * k], bytes(tail) == FILL[16 * (k + 1):L], len(mid) == min(16, L - 16 * k)]
                if len(mid) == min(16, L - 16 * k):
                    conds.append(bytes_eq(mid, [data[16 * k + i] for i in range(len(mid))]))
        else:
            back = hd.parse(body)
            conds.append(len(back) == L)
            if len(back) == L:
                conds.append(bytes_eq(back, data))
    return verdict(sym_all(conds), obs={"printed": texts})


def h_two_layouts() -> bool:
    """
    post: _
    """
    # two dumps with different layouts in one process: each has its own shape (nothing is remembered between calls)
    a1, c1 = sym_int("bpl1", 1, 4), sym_int("bpc1", 1, 4)
    a2, c2 = sym_int("bpl2", 1, 4), sym_int("bpc2", 1, 4)
    lay = []
    for sa, sc in ((a1, c1), (a2, c2)):
        bpl = bpc = None
        for k in range(1, 5):
            if sa == k:
                bpl = k
            if sc == k:
                bpc = k
        lay.append((bpl, bpc))
    data = FILL[:9]
    outs = []
    try:
        for bpl, bpc in lay:
            outs.append(hd.hexdump(memoryview(data), bpl, bpc))
    except Exception as e:
        return verdict(False, obs={"exception": repr(e)})
    conds = []
    for (bpl, bpc), lines in zip(lay, outs):
        nchunks = (bpl + bpc - 1) // bpc
        width = 8 + 5 + (2 * bpl + 2 * nchunks - 2) + 5 + bpl
        conds.append(len(lines) == (9 + bpl - 1) // bpl)
        conds += [len(ln) == width for ln in lines]
    return verdict(sym_all(conds), obs={"layouts": lay, "widths": [[len(x) for x in o] for o in outs]})
