"""C02 - header-type sections display exactly the encoded values.

One harness function, instantiated per (section, field) over the layout table of
vlib/pelbuild.py: the field's bytes are symbolic, everything else is the template.  The
real decoder (generatePH / generateUH / sectionFun -> <Section>.toJSON) runs on the bytes;
the oracle states (i) the displayed value for the symbolic field and (ii) that every other
displayed value equals the decode of the unmodified template (non-interference).
"""
import json
import os
from collections import OrderedDict

from vlib.api import *
from vlib import pelbuild as pb
from pel.datastream import DataStream
from pel.peltool import peltool
from pel.peltool.config import Config

SNAP = {k: [(kk, vv) for kk, vv in v] for k, v in
        json.load(open(os.path.join(os.path.dirname(pb.__file__), "tables_snapshot.json"))).items()}

FUNCTIONS = ["pel.peltool.peltool.parseHeader", "generatePH", "generateUH", "sectionFun",
             "PrivateHeader.toJSON", "private_header.getTimestamp", "UserHeader.toJSON", "ExtendedUserHeader.toJSON",
             "FailingMTMS.toJSON", "ImpactedPartition.toJSON", "comp_id.getDisplayCompID", "DataStream.*"]


# ------------------------------------------------------------------ decode drivers
def decode(section, data, creator="O"):
    s = DataStream(data, byte_order="big", is_signed=False)
    out = OrderedDict()
    if section == "PH":
        ok, _ = peltool.generatePH(s, out)
    elif section == "UH":
        ok, _ = peltool.generateUH(s, creator, out)
    else:
        sid, slen, ver, sub, comp = peltool.parseHeader(s)
        peltool.sectionFun(s, out, sid, slen, ver, sub, comp, creator, Config())
        ok = True
    name = list(out.keys())[0]
    return out[name], s.index


BUILD = {"PH": pb.PH, "UH": pb.UH, "EH": pb.EH, "MT": pb.MT, "LP": pb.LP}


def lookup(table, key, fallback):
    """table.get(key, fallback) for a key that the path constraints pin down (solver-resolved forks)"""
    exp = fallback
    for k, v in SNAP[table]:
        if key == k:
            exp = v
    return exp


def bcd_text(b):
    """MM/DD/YYYY HH:MM:SS code points for the 8 BCD bytes yyyy mm dd hh mm ss cc"""
    def two(x):
        return [48 + nib(x, True), 48 + nib(x, False)]
    y1, y2, mo, d, h, mi, s = b[0], b[1], b[2], b[3], b[4], b[5], b[6]
    return two(mo) + [47] + two(d) + [47] + two(y1) + two(y2) + [32] + two(h) + [58] + two(mi) + [58] + two(s)


def assume_bcd(b):
    assume(sym_all([sym_all([nib(b[i], True) <= 9, nib(b[i], False) <= 9]) for i in range(len(b))]))


# field table: (section, field) -> dict(kind, kw, width, key(s), deps)
#   deps = other displayed keys that legitimately depend on the field
F = {}


def fld(section, name, kind, key, width=None, deps=(), **extra):
    F["%s:%s" % (section, name)] = dict(section=section, name=name, kind=kind, key=key, width=width,
                                        deps=tuple(deps), **extra)


for sec in ("PH", "UH", "EH", "MT", "LP"):
    fld(sec, "ver", "rawint", "Section Version", 1)
    fld(sec, "sub", "rawint", "Sub-section type", 1)
    fld(sec, "comp", "compid", "Log Committed by" if sec == "UH" else "Created by", 2)
fld("PH", "create", "bcd", "Created at", 8)
fld("PH", "commit", "bcd", "Committed at", 8)
fld("PH", "creator", "creator", "Creator Subsystem", 1, deps=("Created by",))
fld("PH", "count", "hidden", None, 1)
fld("PH", "obmc", "dec", "BMC Event Log Id", 4)
fld("PH", "cssver", "hex", "CSSVER", 8)
fld("PH", "plid", "hex", "Platform Log Id", 4)
fld("PH", "eid", "hex", "Entry Id", 4)
fld("UH", "subsys", "table", "Subsystem", 1, table="subsystemValues", fallback="Invalid")
fld("UH", "scope", "table", "Event Scope", 1, table="eventScopeValues", fallback="Invalid")
fld("UH", "sev", "table", "Event Severity", 1, table="severityValues", fallback="Invalid")
fld("UH", "etype", "table", "Event Type", 1, table="eventTypeValues", fallback="Invalid")
fld("UH", "domain", "hidden", None, 1)
fld("UH", "vector", "hidden", None, 1)
fld("UH", "flags", "flags", "Action Flags", 2)
fld("UH", "states", "states", None, 4)
fld("EH", "mtm", "text", "Reporting Machine Type", 8)
fld("EH", "sn", "text", "Reporting Serial Number", 12)
fld("EH", "fwrel", "text", "FW Released Ver", 16)
fld("EH", "fwsub", "text", "FW SubSys Version", 16)
fld("EH", "reftime", "bcd", "Common Ref Time", 8)
fld("EH", "symptom", "symptom", "Symptom Id", None, deps=("Symptom Id Len",))
fld("MT", "mtm", "text", "Machine Type Model", 8)
fld("MT", "sn", "text", "Serial Number", 12)
fld("LP", "part_id", "hex", "Primary Partition ID", 2)
fld("LP", "log_id", "hex", "Logical Partition Log ID", 4)
fld("LP", "name", "lpname", "Primary Partition Name", None, deps=("Length of LP Name",))
fld("LP", "targets", "targets", "Target LP", None, deps=("Target LP Count",))

TEXT_LENS = {8: [0, 1, 7, 8], 12: [0, 1, 11, 12], 16: [0, 2, 15, 16]}
CASES = []
for k, f in F.items():
    if f["kind"] == "text":
        CASES += ["%s:n%d" % (k, n) for n in TEXT_LENS[f["width"]]]
    elif f["kind"] == "symptom":
        CASES += ["%s:n%d" % (k, n) for n in (0, 1, 4, 12)]
    elif f["kind"] == "lpname":
        CASES += ["%s:n%d" % (k, n) for n in (0, 1, 4, 8)]
    elif f["kind"] == "targets":
        CASES += ["%s:n%d" % (k, n) for n in (0, 1, 2, 3, 5)]
    elif f["kind"] == "compid":
        CASES += [k + ":O", k + ":H"] + ([k + ":HO", k + ":R"] if f["section"] == "UH" else [])
    else:
        CASES.append(k)
        if f["kind"] in ("hex", "dec") and f["width"] >= 2:
            CASES.append(k + ":hi")       # the same field restricted to values with the top bit set (sign boundary)
QUICK = ["PH:cssver:hi", "PH:obmc:hi", "EH:fwrel:n16", "EH:fwsub:n16", "PH:cssver", "UH:comp:HO", "PH:plid", "PH:eid", "PH:commit", "PH:creator", "PH:obmc", "UH:sev", "UH:flags", "UH:states", "UH:comp:H",
         "EH:mtm:n7", "EH:symptom:n4", "MT:sn:n11", "LP:targets:n3", "LP:name:n4", "LP:part_id"]

SLOW = ["UH:flags"]      # 256 paths (8 independent bit tests), ~0.5 s each
HARNESSES = [{"fn": "h_field", "cases": [c for c in CASES if c not in SLOW], "quick_cases": [c for c in QUICK if c not in SLOW],
              "timeout": {"quick": 60, "thorough": 300}},
             {"fn": "h_field", "cases": SLOW, "timeout": {"quick": 240, "thorough": 600}}]
BOUNDS = {"symbolic": "one field (<= 8 bytes, all values) per run; text fields: n printable-ASCII symbolic bytes + NUL "
                      "padding for n in a per-width catalogue; LP: name length <= 8, <= 5 targets (pairwise distinct)",
          "concrete": "all other bytes = template of vlib/pelbuild.py", "cases": len(CASES)}
ASSUMPTIONS = ["BCD timestamp bytes have nibbles 0..9", "text bytes are printable ASCII (0x20..0x7E) followed by NUL padding",
               "tables_snapshot.json is the published PEL table set (frozen from the pinned commit)",
               "component-name registry (pel_registry) absent, as in this sandbox"]
OUTSIDE = ["two distant fields special at once", "non-ASCII text", "more than 5 target LPs / names longer than 8",
           "component names from pel_registry"]


def h_field() -> bool:
    """
    post: _
    """
    parts = CASE.split(":")
    f = F[parts[0] + ":" + parts[1]]
    arg = parts[2] if len(parts) > 2 else ""
    sec, name, kind = f["section"], f["name"], f["kind"]
    creator = arg[0] if kind == "compid" else "O"
    registry = None
    if kind == "compid" and arg == "R":
        # component-name registry present (fixture): names for registered ids, 4 hex digits otherwise
        from pel.peltool import comp_id
        creator = "O"
        registry = {"O": {"2000": "bmc-logging", "E500": "hw-diags", "00FF": "x"}, "B": {"0100": "hb"}}
        comp_id.componentIDs.update(registry)
    base = {"creator": ord(creator)} if sec == "PH" else {}
    kw = {}
    conds = []           # oracle conditions for the field's own key(s)
    own = [f["key"]] if f["key"] else []
    if kind in ("rawint", "hex", "dec", "table", "flags", "states", "hidden", "creator"):
        w = f["width"]
        x = sym_int("x", 0, 127 if kind == "creator" else 256 ** w - 1)
        if arg == "hi":
            assume(be(x, w)[0] >= 0x80)
        kw[name] = x
    elif kind == "compid":
        x = sym_int("x", 0, 0xFFFF)
        kw["comp"] = x
    elif kind == "bcd":
        b = sym_bytes("b", 8)
        assume_bcd(b)
        kw[name] = b
    elif kind == "text":
        n = int(arg[1:])
        b = sym_bytes("b", n, 0x20, 0x7E)
        kw[name] = mkbytes(b, b"\0" * (f["width"] - n))
    elif kind == "symptom":
        n = int(arg[1:])
        k = sym_int("k", 0, n)           # number of content bytes; the rest is NUL padding
        b = sym_bytes("b", n)
        for i in range(n):
            assume(sym_any([sym_all([i < k, b[i] >= 0x20, b[i] <= 0x7E]), sym_all([i >= k, b[i] == 0])]))
        kw["symptom"] = b
    elif kind == "lpname":
        n = int(arg[1:])
        b = sym_bytes("b", n, 0x20, 0x7E)
        pad = (-n) % 4
        kw["name"] = mkbytes(b, b"\0" * pad)
    elif kind == "targets":
        n = int(arg[1:])
        ts = [sym_int("t%d" % i, 0, 0xFFFF) for i in range(n)]
        for i in range(n):
            for j in range(i):
                assume(ts[i] != ts[j])
        kw["targets"] = ts
    data = mkbytes(pb.flat(BUILD[sec](**dict(base, **kw))), b"\xEE\xEE")
    tmpl = pb.flat(BUILD[sec](**base)) + b"\xEE\xEE"
    try:
        out, used = decode(sec, data, creator)
        out0, used0 = decode(sec, tmpl, creator)
    except Exception as e:
        return verdict(False, obs={"exception": repr(e)})

    # ---- (i) the field's own display
    if kind == "rawint":
        conds.append(out[f["key"]] == x)
    elif kind == "hex":
        conds.append(numval_eq(out[f["key"]], x, 16))
    elif kind == "dec":
        conds.append(numval_eq(out[f["key"]], x, 10))
    elif kind == "bcd":
        conds.append(str_is(out[f["key"]], bcd_text(b)))
    elif kind == "text":
        conds.append(str_is(out[f["key"]], [b[i] for i in range(n)]))
    elif kind == "symptom":
        own.append("Symptom Id Len")
        conds.append(numval_eq(out["Symptom Id Len"], n, 10))
        got = out["Symptom Id"]
        # content = first k bytes: compare per possible k (k is pinned by the decoder's own forks or not at all)
        ok = False
        for cand in range(n + 1):
            if k == cand:
                ok = str_is(got, [b[i] for i in range(cand)])
        conds.append(ok)
    elif kind == "lpname":
        own.append("Length of LP Name")
        conds.append(numval_eq(out["Length of LP Name"], n + pad, 16))
        conds.append(str_is(out["Primary Partition Name"], [b[i] for i in range(n)]))
    elif kind == "targets":
        own.append("Target LP Count")
        conds.append(numval_eq(out["Target LP Count"], n, 16))
        shown = out.get("Target LP", [])
        if isinstance(shown, str) or is_sym(shown) and not isinstance(shown, (list, tuple)):
            shown = [shown]
        shown = list(shown) + [v for kx, v in out.items() if kx.startswith("Target LP ") and kx != "Target LP Count"]
        for t in ts:   # every encoded id is shown somewhere
            conds.append(sym_any([numval_eq(s, t, 16) for s in shown]) if shown else False)
        conds.append(len(shown) == n)   # nothing duplicated / invented
    elif kind == "table":
        conds.append(out[f["key"]] == lookup(f["table"], x, f["fallback"]))
    elif kind == "flags":
        exp = []
        for bit, nm in SNAP["actionFlagsValues"]:
            if bit_set(x, bit.bit_length() - 1):
                exp.append(nm)
        conds.append(list(out["Action Flags"]) == exp)
    elif kind == "states":
        own += ["Host Transmission", "HMC Transmission"]
        conds.append(out["Host Transmission"] == lookup("transmissionStates", x % 256, "Unknown"))
        conds.append(out["HMC Transmission"] == lookup("transmissionStates", (x // 256) % 256, "Unknown"))
    elif kind == "creator":
        exp = "Unknown"
        for kx, vx in SNAP["creatorIDs"]:
            if x == ord(kx):
                exp = vx
        conds.append(out["Creator Subsystem"] == exp)
        # component id display for this creator: PHYP -> ASCII pair (0x20,0x00 -> hex), others hex
        own.append("Created by")
        conds.append(numval_eq(out["Created by"], 0x2000, 16))   # template comp id 0x2000: second byte 0 -> hex form
    elif kind == "compid" and registry is not None:
        exp = None
        for kx, vx in registry["O"].items():
            if x == int(kx, 16):
                exp = vx
        conds.append(out[f["key"]] == exp if exp is not None else numval_eq(out[f["key"]], x, 16))
    elif kind == "compid":
        hi, lo = x // 256, x % 256
        if creator == "H":
            if sym_all([hi != 0, lo != 0]):
                conds.append(str_is(out[f["key"]], [hi, lo]))
            else:
                conds.append(numval_eq(out[f["key"]], x, 16))
        else:
            conds.append(numval_eq(out[f["key"]], x, 16))
    elif kind == "hidden":
        pass

    if kind == "compid" and arg == "HO":
        # the same bytes shown for another creator right afterwards (PHYP ids are ASCII, all others hex)
        try:
            out2, _ = decode(sec, data, "O")
        except Exception as e:
            return verdict(False, obs={"exception": repr(e)})
        conds.append(numval_eq(out2[f["key"]], x, 16))

    # ---- (ii) non-interference: every other displayed value as in the template decode
    others_ok = list(out.keys()) == list(out0.keys()) or kind in ("targets",)
    for kx in out0:
        if kx in own or kx in f["deps"]:
            continue
        if kx not in out:
            others_ok = False
            continue
        conds.append(doc_eq(out[kx], out0[kx]))
    conds.append(used == used0 if kind not in ("symptom", "lpname", "targets") else True)
    return verdict(sym_all([others_ok] + conds), obs={"out": out})
