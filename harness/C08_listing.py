"""C08 - list, count and display-all agree on the same PELs in file-name order.

The real main() is run three times (-n, -l, -a) per path in the in-memory world on the same
directory and the same (symbolic) options; the assertions are relational: the number counted, the
entries listed and the documents displayed refer to the same logs, in file-name order (exactly
reversed with --reverse), restricted identically by --extension, and every --list field equals the
corresponding field of the full decode.
"""
from vlib.api import *
from vlib import pelbuild as pb
from vlib.stubs import World, Namespace, ARG_DEFAULTS, run_main
from pel.peltool import peltool
from harness.C09_isolation import _well_framed

FUNCTIONS = ["peltool.main", "peltool.getFileList", "peltool.listOption", "peltool.extractAndSummarizePEL",
             "peltool.parsePELSummary", "peltool.printPELCount", "peltool.extractAllPELsData", "peltool.parsePEL",
             "peltool.considerPEL"]
SW = ("serviceable", "non_serviceable", "hidden", "critSysTerm")
AGREE = ["%s%s%s" % (o, e, s) for o in ("", "O") for e in ("", "E") for s in ("", "S4", "S05")] + ["q", "qOS4"]
FIELDS = ["plid", "creator", "subsys", "commit", "sev", "comp", "src", "src:last"]
HARNESSES = [
    {"fn": "h_agree", "cases": AGREE, "quick_cases": ["q", "qOS4"], "timeout": {"quick": 150, "thorough": 1600}},
    {"fn": "h_summary", "cases": FIELDS, "quick_cases": ["plid", "src", "commit", "src:last", "subsys", "sev"], "timeout": {"quick": 300, "thorough": 600}},
    {"fn": "h_hex", "cases": ["", "r"], "quick_cases": [""], "timeout": {"quick": 150, "thorough": 400}},
    {"fn": "h_order", "cases": ["n", "l", "a"], "timeout": {"quick": 120, "thorough": 400}},
    {"fn": "h_filelist", "cases": ["names3"], "timeout": {"quick": 120, "thorough": 900}, "tiers": ["thorough"]},
    {"fn": "h_filelist", "cases": ["names2"], "timeout": {"quick": 120, "thorough": 400}},
]
BOUNDS = {"agreement": "directory of 3 logs: one with 12 symbolic variants (severity class {0x00,0x40,0x51} x hidden x "
                       "report/service-action), one hidden, one serviceable; -s -N -H -t symbolic (quick: -s -H); --only, "
                       "-E and the severity-group set per case",
          "summary": "one header / SRC field symbolic at a time (all values)",
          "order": "3 concrete + 1 symbolic-extension file names, --reverse and --extension symbolic, all three modes; "
                   "getFileList alone with 3 (thorough) / 2 symbolic 3-character names: first character over {a b _}, suffix over {.p .q _p}"}
ASSUMPTIONS = ["file system, print, argparse replaced by the in-memory world (E1, E2, E4); os.walk order is the list order "
               "given by the harness (getFileList sorts)", "JSON text replaced by the token (M7)"]
OUTSIDE = ["directories with more than 4 files", "real os.walk ordering"]


def _variant(i):
    """12 log variants: informational (service-action x hidden), unrecoverable / terminating (hidden x report)"""
    sc = sym_int("sev%d" % i, 0, 2)
    hid, y = sym_int("hid%d" % i, 0, 1), sym_int("y%d" % i, 0, 1)
    sev = sym_ite(sc == 0, 0x00, sym_ite(sc == 1, 0x40, 0x51))
    flags = sym_ite(sc == 0, y * 0x8000, y * 0x2000) + hid * 0x4000 + 0x0800
    return sev, flags


def _run(files, subdirs=None, **opts):
    w = World(files=files, subdirs=subdirs)
    ns = Namespace(**dict(ARG_DEFAULTS, path="/pels", skip_plugins=True, **opts))
    status = run_main(peltool, w, ns)
    return w, status


def _count(w):
    outs = w.stdout()
    if len(outs) != 1 or not isinstance(outs[0], str):
        return None
    txt = outs[0]
    pre, post = '{\n    "Number of PELs found": ', "\n}"
    if txt.startswith(pre) and txt.endswith(post) and txt[len(pre):-len(post)].isdigit():
        return int(txt[len(pre):-len(post)])
    return None


def _listed(w):
    docs = [o for o in w.stdout() if hasattr(o, "obj")]
    if len(docs) != 1 or len(w.stdout()) != 1:
        return None
    return docs[0].obj


def _displayed(w):
    return [o.obj for o in w.stdout() if hasattr(o, "obj")]


def h_agree() -> bool:
    """
    post: _
    """
    only, every = "O" in CASE, "E" in CASE
    sevs = None
    if "S" in CASE:
        names = {0: "Informational", 4: "Unrecoverable", 5: "Critical"}
        sevs = [names[int(ch)] for ch in CASE.split("S")[1]]
    quick = CASE.startswith("q")
    sw = {k: (bool(sym_bool(k)) if (not quick or k in ("serviceable", "hidden")) else False) for k in SW}
    s0, f0 = _variant(0)
    files = [("b_50000002", pb.PEL(pb.SRC(), ph=dict(eid=0x50000002), uh=dict(sev=0x40, flags=0x6800))),
             ("a_50000001", pb.PEL(pb.SRC(), ph=dict(eid=0x50000001), uh=dict(sev=s0, flags=f0))),
             ("c_50000003", pb.PEL(pb.SRC(), ph=dict(eid=0x50000003)))]
    opts = dict(only=only, every_pel=every, severities=sevs, **sw)
    try:
        rev = (True if quick else bool(sym_bool("reverse"))) if sevs else False   # (a selection that depends on what was examined before
        wn, sn = _run(files, show_pel_count=True, **opts)          #  shows up as a disagreement between the visiting orders)
        wl, sl = _run(files, list=True, reverse=rev, **opts)
        wa, sa = _run(files, all=True, reverse=rev, **opts)
    except Exception as e:
        return verdict(False, obs={"exception": repr(e)})
    n, lst, docs = _count(wn), _listed(wl), _displayed(wa)
    conds = [sn == 0, sl == 0, sa == 0, n is not None, lst is not None, _well_framed(wa, "a")]
    if n is not None and lst is not None:
        eids_l = list(lst.keys())
        eids_a = [d["Private Header"]["Entry Id"] for d in docs]
        conds += [n == len(eids_l), n == len(eids_a), eids_l == eids_a, eids_l == sorted(eids_l, reverse=rev)]
    return verdict(sym_all(conds), obs={"count": n, "listed": list(lst.keys()) if lst else None,
                                        "displayed": [d["Private Header"]["Entry Id"] for d in docs]})


def h_summary() -> bool:
    """
    post: _
    """
    f = CASE.split(":")[0]
    ph, uh, srckw = dict(eid=0x50000001), {}, {}
    if f == "plid":
        ph["plid"] = sym_int("x", 0, 0xFFFFFFFF)
    elif f == "creator":
        c = sym_int("x", 0, 10)
        letters = "BCHKLMOPSTZ"
        ph["creator"] = sym_ite(c == 0, ord("B"), sym_ite(c == 1, ord("C"), sym_ite(c == 2, ord("H"), sym_ite(
            c == 3, ord("K"), sym_ite(c == 4, ord("L"), sym_ite(c == 5, ord("M"), sym_ite(c == 6, ord("O"), sym_ite(
                c == 7, ord("P"), sym_ite(c == 8, ord("S"), sym_ite(c == 9, ord("T"), ord("Z")))))))))))
    elif f == "subsys":
        uh["subsys"] = sym_int("x", 0, 255)
    elif f == "commit":
        b = sym_bytes("x", 8)
        assume(sym_all([sym_all([nib(b[i], True) <= 9, nib(b[i], False) <= 9]) for i in range(8)]))
        ph["commit"] = b
    elif f == "sev":
        uh["sev"] = sym_int("x", 0, 255)
    elif f == "comp":
        ph["comp"] = sym_int("x", 0, 0xFFFF)
    elif f == "src":
        w2 = sym_bytes("x", 2, 0x21, 0x7E)
        srckw["ascii"] = mkbytes(b"BD", w2, b"1234" + b" " * 24)
    secs = [pb.SRC(**srckw)] if CASE.endswith(":last") else [pb.SRC(**srckw), pb.UD(b"\x01", comp=0x4321)]
    files = [("a_50000001", pb.PEL(*secs, ph=ph, uh=uh))]
    try:
        wl, sl = _run(files, list=True, every_pel=True)
        wa, sa = _run(files, all=True, every_pel=True)
    except Exception as e:
        return verdict(False, obs={"exception": repr(e)})
    lst, docs = _listed(wl), _displayed(wa)
    conds = [sl == 0, sa == 0, lst is not None and len(lst) == 1, len(docs) == 1]
    if lst is not None and len(lst) == 1 and len(docs) == 1:
        s = list(lst.values())[0]
        d = docs[0]
        conds += [doc_eq(s.get("SRC"), d["Primary SRC"]["Reference Code"]), doc_eq(s["PLID"], d["Private Header"]["Platform Log Id"]),
                  doc_eq(s["CreatorID"], d["Private Header"]["Creator Subsystem"]), doc_eq(s["Subsystem"], d["User Header"]["Subsystem"]),
                  doc_eq(s["Commit Time"], d["Private Header"]["Committed at"]), doc_eq(s["Sev"], d["User Header"]["Event Severity"]),
                  doc_eq(s["CompID"], d["Private Header"]["Created by"]),
                  doc_eq(list(lst.keys())[0], d["Private Header"]["Entry Id"])]
    return verdict(sym_all(conds), obs={"summary": lst, "doc_keys": [list(d.keys()) for d in docs]})


def h_order() -> bool:
    """
    post: _
    """
    mode = CASE
    rev = bool(sym_bool("rev"))
    extsel = sym_int("ext", 0, 2)
    ext = None
    if extsel == 1:
        ext = ".pel"
    elif extsel == 2:
        ext = ".txt"
    x = sym_int("x", 0, 1)
    last = "d_50000004.txt"
    if x == 1:
        last = "0_50000004.pel"
    # deliberately unsorted walk order; two names share the part before '_' (logs created in the same 1/100 s)
    names = ["m_50000002.pel", "z_50000003.txt", "b_50000001.pel", last, "b_50000000.pel", "pel", "txt"]
    eid_of = lambda nm: int(nm.split("_")[1][:8], 16) if "_" in nm else {"pel": 0x50000007, "txt": 0x50000008}[nm]
    files = [(nm, pb.PEL(pb.SRC(), ph=dict(eid=eid_of(nm)))) for nm in names]
    # (sub-directories - also ones named like a log file - are not logs)
    opt = dict(reverse=rev, extension=ext, every_pel=True, subdirs={"old_50000009.pel": [("q_5000000A.pel", files[0][1])], "notes.txt": []})
    try:
        if mode == "n":
            w, st = _run(files, show_pel_count=True, **opt)
        elif mode == "l":
            w, st = _run(files, list=True, **opt)
        else:
            w, st = _run(files, all=True, **opt)
    except Exception as e:
        return verdict(False, obs={"exception": repr(e)})
    want = sorted(nm for nm in names if ext is None or nm.endswith(ext))
    if rev:
        want = list(reversed(want))
    want_eids = ["0x%08X" % eid_of(nm) for nm in want]
    conds = [st == 0]
    if mode == "n":
        conds.append(_count(w) == len(want))
        got = _count(w)
    elif mode == "l":
        lst = _listed(w)
        got = list(lst.keys()) if lst is not None else None
        conds.append(got == want_eids)
    else:
        got = [d["Private Header"]["Entry Id"] for d in _displayed(w)]
        conds.append(got == want_eids)
    return verdict(sym_all(conds), obs={"got": got, "want": want_eids})


def h_filelist() -> bool:
    """
    post: _
    """
    k = int(CASE[-1])
    names, first, suf = [], [], []
    for i in range(k):
        c0 = sym_str("c%d" % i, 1, "ab_")
        sx = sym_int("s%d" % i, 0, 2)                    # suffix: ".p" / ".q" / "_p" (no extension)
        s1 = sym_ite(sx == 2, ord("_"), ord("."))
        s2 = sym_ite(sx == 1, ord("q"), ord("p"))
        names.append(mkstr([ord(c0[0]), s1, s2]))
        first.append(ord(c0[0]))
        suf.append(sx)
    rev = bool(sym_bool("rev"))
    ext = ".p" if bool(sym_bool("useext")) else None
    w = World(files=[(nm, b"") for nm in names])
    from vlib.stubs import FakeOs, patched
    with patched(peltool, os=FakeOs(w)):
        root, lst = peltool.getFileList("/pels", ext, rev)
    keep = [nm for nm, sx in zip(names, suf) if ext is None or sx == 0]
    conds = [root == "/pels", len(lst) == len(keep)]
    if len(lst) == len(keep):
        def key(nm):
            return [ord(nm[0]), ord(nm[1]), ord(nm[2])]

        def le(a, b):
            ka, kb = key(a), key(b)
            return sym_any([ka[0] < kb[0], sym_all([ka[0] == kb[0], ka[1] < kb[1]]),
                            sym_all([ka[0] == kb[0], ka[1] == kb[1], ka[2] <= kb[2]])])
        for i in range(len(lst) - 1):
            conds.append(le(lst[i + 1], lst[i]) if rev else le(lst[i], lst[i + 1]))
        for nm in keep:        # same multiset
            cin = sum(1 for o in keep if bool(str_eq(o, nm)))
            cout = sum(1 for o in lst if bool(str_eq(o, nm)))
            conds.append(cin == cout)
    return verdict(sym_all(conds), obs={"list": lst})


def _dumps(w):
    """number of delimited hex dumps on stdout and the first data line of each"""
    outs = w.stdout()
    begins = [i for i, o in enumerate(outs) if o == "-------------- PEL Begin  ----------------"]
    ends = [i for i, o in enumerate(outs) if o == "-------------- PEL End    ----------------"]
    ok = len(begins) == len(ends) and all(b < e for b, e in zip(begins, ends)) and not any(hasattr(o, "obj") for o in outs)
    return ok, [outs[b + 4] for b in begins] if ok else []


def h_hex() -> bool:
    """
    post: _
    """
    # --hex: the dumps shown by -l -x and by -a -x are those of exactly the logs that -n counts, in the same order
    s0, f0 = _variant(0)
    rev = CASE == "r"
    files = [("b_50000002", pb.PEL(pb.SRC(), ph=dict(eid=0x50000002), uh=dict(sev=0x40, flags=0x6800))),
             ("a_50000001", pb.PEL(pb.SRC(), ph=dict(eid=0x50000001), uh=dict(sev=s0, flags=f0))),
             ("c_50000003", pb.PEL(pb.SRC(), ph=dict(eid=0x50000003)))]
    sw = {"hidden": bool(sym_bool("hidden"))}
    try:
        wn, sn = _run(files, show_pel_count=True, **sw)
        wl, sl = _run(files, list=True, hex=True, reverse=rev, **sw)
        wa, sa = _run(files, all=True, hex=True, reverse=rev, **sw)
    except Exception as e:
        return verdict(False, obs={"exception": repr(e)})
    n = _count(wn)
    okl, dl = _dumps(wl)
    oka, da = _dumps(wa)
    conds = [sn == 0, sl == 0, sa == 0, n is not None, okl, oka, len(dl) == n, len(da) == n, dl == da]
    return verdict(sym_all(conds), obs={"count": n, "list_dumps": len(dl), "all_dumps": len(da)})
