"""C19 - decoding a PEL gives the same result whatever was decoded before it.

h_tworun : fresh state: decode(x) -> d1;  fresh state: decode(y); decode(x) -> d3; decode(x) -> d4, all inside
           ONE path: d1 == d3 == d4.  x / y come from a catalogue of pairs that
           share a decoder, a plugin, a cache key or a class; one field of x and of y is symbolic.
h_step   : one inductive step from an arbitrary *valid* cache state (allocator pattern): every import
           cache entry relevant to x is symbolically absent / cached, under the invariant "a name maps
           to None only if importing it fails, to the module otherwise"; decode(x) must equal the
           decode from the empty state and the invariant must hold afterwards - for every scripted
           plugin behaviour (returns, returns nothing, raises, raises ImportError).
h_dirorder: --all-pels on [good, damaged, good] forwards and with --reverse shows each log as its
           stand-alone decode.
The static state inventory (module / class level objects that the code mutates) is reported in the
evidence file; a drift from the expected list is printed as a NOTE.
"""
import ast
import glob
import os
import sys
from collections import OrderedDict

from vlib.api import *
from vlib import pelbuild as pb
from vlib.stubs import FakeJson, FakeImporter, SymDict, patched, World, Namespace, ARG_DEFAULTS, run_main
from pel.datastream import DataStream
from pel.peltool import peltool, user_data, ext_user_data, parse_user_data, src as srcmod, default as defmod, comp_id
from pel.peltool.config import Config
from srcparsers.osrc import osrc

FUNCTIONS = ["peltool.parsePEL and everything below it", "module-level state of src.py, parse_user_data.py, comp_id.py, "
             "registry.py, osrc.py, io_drawer/*.py, udparsers/*", "peltool.extractAllPELsData"]

PAIRS = ["summary-first", "lp", "src-words", "callouts", "compid-HO", "compid-OH", "registry", "ud-plugin", "ud-fail:2", "ud-fail:4", "ud-fail:6",
         "ud-fail:7", "src-fail:2", "src-fail:4", "callout-fail:4", "callout-fail:6", "callout-unknown", "damaged", "ilog-mex-nimitz",
         "ilog-nimitz-mex", "trace-mex-nimitz", "hlog", "oe500", "osrc-BC-BD", "osrc-BD-BC", "compid-lazy", "src-words-short"]
HARNESSES = [
    {"fn": "h_tworun", "cases": PAIRS, "quick_cases": ["summary-first", "lp", "compid-HO", "registry", "ud-fail:6", "callout-fail:4", "callout-unknown",
                                                     "ilog-mex-nimitz", "trace-mex-nimitz", "damaged", "osrc-BC-BD", "compid-lazy",
                                                     "src-words-short"],
     "timeout": {"quick": 120, "thorough": 400}},
    {"fn": "h_step", "cases": ["ud:%d" % b for b in (0, 2, 4, 6, 7)] + ["src:%d" % b for b in (0, 2, 4, 6)] + ["callout:%d" % b for b in (0, 4, 6)],
     "quick_cases": ["ud:0", "ud:6", "src:4", "callout:4"], "timeout": {"quick": 90, "thorough": 300}},
    {"fn": "h_dirorder", "cases": ["mid", "first"], "quick_cases": ["mid"], "timeout": {"quick": 120, "thorough": 400}},
]
BOUNDS = {"histories": "one-step histories x -> y -> x with one symbolic field in x and in y, over 22 catalogue pairs (same "
                       "section class, same plugin, same cache key with another creator / SRC type / drawer type, y damaged, y "
                       "whose plugin fails); one inductive step from every valid state of the import caches",
          "directory": "3 files (good, damaged at a symbolic truncation offset, good), forward and reverse"}
ASSUMPTIONS = ["importlib replaced by a recorder with fixture plugins, caches by association lists (E3) - except in the io_drawer / "
               "oe500 cases, which import and run the shipped plugin modules", "json replaced by the token (M7)",
               "state outside Python objects does not exist (no files are written by the decoders)"]
OUTSIDE = ["histories longer than one intervening decode with symbolic content (the step harness covers arbitrary cache states)",
           "state kept outside the interpreter"]

EXPECTED_MUTATED = sorted([
    "pel.peltool.comp_id:attemptedToParseCompIDs", "pel.peltool.comp_id:componentIDs",
    "pel.peltool.parse_user_data:userDataParsers", "pel.peltool.src:calloutParsers", "pel.peltool.src:srcParsers",
    "srcparsers.osrc.osrc:osrcParsers"])


# ----------------------------------------------------------------------- static inventory
def state_inventory(root=None):
    """module-level / class-level names that some function of the same module mutates
    (subscript store, mutating method call, augmented assignment, `global` rebinding)"""
    root = root or os.path.join(os.environ.get("VERIF_REPO", "/repo"), "modules")
    MUT = {"append", "extend", "update", "add", "clear", "pop", "popitem", "remove", "insert", "setdefault", "discard"}
    found = set()
    for path in sorted(glob.glob(os.path.join(root, "**", "*.py"), recursive=True)):
        mod = os.path.relpath(path, root)[:-3].replace(os.sep, ".")
        try:
            tree = ast.parse(open(path).read())
        except SyntaxError:
            continue
        top = set()
        cls_attrs = {}
        for node in tree.body:
            if isinstance(node, (ast.Assign, ast.AnnAssign)):
                for t in (node.targets if isinstance(node, ast.Assign) else [node.target]):
                    if isinstance(t, ast.Name):
                        top.add(t.id)
            elif isinstance(node, ast.ClassDef):
                for n2 in node.body:
                    if isinstance(n2, ast.Assign):
                        for t in n2.targets:
                            if isinstance(t, ast.Name) and isinstance(n2.value, (ast.Dict, ast.List, ast.Set, ast.Call)):
                                cls_attrs.setdefault(node.name, set()).add(t.id)
        for fn in ast.walk(tree):
            if not isinstance(fn, (ast.FunctionDef, ast.AsyncFunctionDef)):
                continue
            globs = set()
            for n in ast.walk(fn):
                if isinstance(n, ast.Global):
                    globs.update(n.names)
            for n in ast.walk(fn):
                tgt = None
                if isinstance(n, (ast.Assign, ast.AugAssign, ast.AnnAssign)):
                    tl = n.targets if isinstance(n, ast.Assign) else [n.target]
                    for t in tl:
                        if isinstance(t, ast.Subscript):
                            tgt = t.value
                        elif isinstance(t, ast.Name) and t.id in globs:
                            found.add("%s:%s" % (mod, t.id))
                        elif isinstance(t, ast.Attribute) and isinstance(t.value, ast.Name) and t.value.id in cls_attrs \
                                and t.attr in cls_attrs[t.value.id]:
                            found.add("%s:%s.%s" % (mod, t.value.id, t.attr))
                elif isinstance(n, ast.Call) and isinstance(n.func, ast.Attribute) and n.func.attr in MUT:
                    tgt = n.func.value
                if tgt is not None:
                    if isinstance(tgt, ast.Name) and tgt.id in top and tgt.id not in _locals(fn):
                        found.add("%s:%s" % (mod, tgt.id))
                    elif isinstance(tgt, ast.Attribute) and isinstance(tgt.value, ast.Name):
                        # Class.attr[...] = / cls.attr / self.attr where attr is declared at class level
                        for cname, attrs in cls_attrs.items():
                            if tgt.attr in attrs and tgt.value.id in (cname, "cls", "self"):
                                if not _assigned_in_init(tree, cname, tgt.attr):
                                    found.add("%s:%s.%s" % (mod, cname, tgt.attr))
    return sorted(found)


def _locals(fn):
    out = set(a.arg for a in fn.args.args)
    for n in ast.walk(fn):
        if isinstance(n, ast.Assign):
            for t in n.targets:
                if isinstance(t, ast.Name):
                    out.add(t.id)
    for n in ast.walk(fn):
        if isinstance(n, ast.Global):
            out -= set(n.names)
    return out


def _assigned_in_init(tree, cname, attr):
    for node in tree.body:
        if isinstance(node, ast.ClassDef) and node.name == cname:
            for f in node.body:
                if isinstance(f, ast.FunctionDef) and f.name == "__init__":
                    for n in ast.walk(f):
                        if isinstance(n, ast.Assign):
                            for t in n.targets:
                                if isinstance(t, ast.Attribute) and isinstance(t.value, ast.Name) and t.value.id == "self" \
                                        and t.attr == attr:
                                    return True
    return False


# (computed when the runner loads the module's metadata; CrossHair's audit wall forbids directory scans)
INVENTORY = state_inventory() if not SYMBOLIC else list(EXPECTED_MUTATED)
INVENTORY_DRIFT = sorted(set(INVENTORY) ^ set(EXPECTED_MUTATED))
BOUNDS["state inventory (static)"] = INVENTORY
BOUNDS["state inventory drift vs expected"] = INVENTORY_DRIFT


# ------------------------------------------------------------------------------- decoding
class env:
    """token json everywhere; optionally the importlib recorder (fixture plugins) and association-list caches"""
    def __init__(self, imp=None, caches=None):
        self.fj = FakeJson()
        self.imp = imp
        kw_pud, kw_src, kw_osrc = dict(json=self.fj), dict(json=self.fj), dict(json=self.fj)
        if imp is not None:
            imp.json = self.fj
            c = caches or {}
            kw_pud.update(importlib=imp, userDataParsers=c.get("ud", SymDict()))
            kw_src.update(importlib=imp, srcParsers=c.get("src", SymDict()), calloutParsers=c.get("callout", SymDict()))
            kw_osrc.update(importlib=imp, osrcParsers=SymDict())
        self.caches = dict(ud=kw_pud.get("userDataParsers"), src=kw_src.get("srcParsers"), callout=kw_src.get("calloutParsers"))
        self.ctx = [patched(user_data, json=self.fj), patched(ext_user_data, json=self.fj), patched(defmod, json=self.fj),
                    patched(parse_user_data, **kw_pud), patched(srcmod, **kw_src), patched(osrc, **kw_osrc),
                    patched(peltool, json=self.fj, prettyPrint=lambda t, *a, **k: t, print=lambda *a, **k: None)]

    def __enter__(self):
        for c in self.ctx:
            c.__enter__()
        return self

    def __exit__(self, *a):
        for c in reversed(self.ctx):
            c.__exit__(*a)
        return False


class _lazy:
    """stand-in for the component-name registry loader (pel_registry is not installed here): fills the table on first use"""
    def __init__(self, table):
        self.table = table

    def __enter__(self):
        if self.table is not None:
            t = self.table

            def loader():
                if not comp_id.attemptedToParseCompIDs:
                    comp_id.attemptedToParseCompIDs = True
                    comp_id.componentIDs.update(t)
            self.ctx = patched(comp_id, getAllCreatorsCompIDs=loader)
            self.ctx.__enter__()
        return self

    def __exit__(self, *a):
        if self.table is not None:
            self.ctx.__exit__(*a)
        return False


def dec(data, cfg=None):
    if cfg is None:
        cfg = Config()
        cfg.every_pel = True
    try:
        eid, tok = peltool.parsePEL(DataStream(data, byte_order="big", is_signed=False), cfg, False)
        return tok.obj if hasattr(tok, "obj") else ("empty", eid)
    except Exception as e:
        return ("failed", type(e).__name__)


class Scripted(FakeImporter):
    """fixture importer whose behaviour can be switched between decodes"""
    def __init__(self, behaviour=0, present=lambda n: True):
        FakeImporter.__init__(self, None, behaviour, present)


def _co(proc=b"BMC0001"):
    return pb.callouts_subsection([pb.callout(loc=b"Ufcs-P1\0", fru=pb.fru_identity(0x42, pn=proc))])


ILOG_PTES = [0xE308310E, 0xE3083232, 0x01040000]
TRACE_HASHES = [11901748, 15903237, 32403714]


def _ilog(ver, pte):
    return pb.PEL(pb.UD(mkbytes(b"\x00\x10\x00\x01", be(pte, 4)) if is_sym(pte) else b"\x00\x10\x00\x01" + pte.to_bytes(4, "big"),
                        ver=ver, sub=73, comp=0x2C00), ph=dict(creator=ord("M")))


def _trace(ver, h):
    hdr = b"\x02\x20\x01\x42" + b"INFO".ljust(12, b"\0") + b"\0\0\0\0" + (32 + 24).to_bytes(4, "big") + b"\0\0\0\1" + b"\0\0\0\x38"
    hb = be(h, 4) if is_sym(h) else list(h.to_bytes(4, "big"))
    entry = mkbytes(b"\x00\x01\x00\x02\x00\x04\x46\x54", hb, b"\x00\x00\x00\x77", b"\x00\x00\x00\x2A", b"\x00\x00\x00\x18")
    return pb.PEL(pb.UD(mkbytes(hdr, entry), ver=ver, sub=84, comp=0x2C00), ph=dict(creator=ord("M")))


def pick(name, options):
    i = sym_int(name, 0, len(options) - 1)
    for k, v in enumerate(options):
        if i == k:
            return v
    return options[0]


def h_tworun() -> bool:
    """
    post: _
    """
    case = CASE.split(":")[0]
    arg = int(CASE.split(":")[1]) if ":" in CASE else 0
    imp = Scripted()
    real_plugins = case.startswith(("ilog", "trace", "hlog", "oe500"))
    between = None          # action between the decodes (switch plugin behaviour)
    if case == "lp":
        t = [sym_int("t%d" % i, 0, 0xFFFF) for i in range(3)]
        x = pb.PEL(pb.LP(targets=(0x0011, t[0])), pb.LP(targets=(0x0044,)))
        y = pb.PEL(pb.LP(targets=(t[1], t[2], 0x0033)))
    elif case == "src-words":
        a, b = sym_int("a", 0, 0xFFFFFFFF), sym_int("b", 0, 0xFFFFFFFF)
        x = pb.PEL(pb.SRC(words=(0x020000F0, a, 3, 4, 5, 6, 7, 8)))
        y = pb.PEL(pb.SRC(words=(0x020000F0, b, 9, 9, 9, 9, 9, 9), wc=5), pb.SRC(sid="SS"))
    elif case == "callouts":
        a, b = sym_int("a", 0, 255), sym_int("b", 0, 255)
        x = pb.PEL(pb.SRC(flags=1, callouts=pb.callouts_subsection([pb.callout(prio=a, mr=pb.mru(((1, 2),)))])))
        y = pb.PEL(pb.SRC(flags=1, callouts=pb.callouts_subsection([pb.callout(prio=b), pb.callout(prio=0x4C, pce=pb.pce_identity())])))
    elif case in ("compid-HO", "compid-OH"):
        cb = sym_bytes("c", 2, 0x21, 0x7E)          # both bytes printable: PHYP shows such an id as two characters
        c = from_be([cb[0], cb[1]])
        first, second = (ord("H"), ord("O")) if case == "compid-HO" else (ord("O"), ord("H"))
        y = pb.PEL(pb.MT(comp=c), ph=dict(creator=first, comp=c), uh=dict(comp=c))
        x = pb.PEL(pb.MT(comp=c), ph=dict(creator=second, comp=c), uh=dict(comp=c))
    elif case in ("osrc-BC-BD", "osrc-BD-BC"):
        # BMC-created logs whose SRCs name the same component: a hostboot-type (BC..) and a BMC-type (BD..) reference code
        w = sym_int("w", 0, 0xFFFFFFFF)
        bc = pb.PEL(pb.SRC(ascii=b"BC8AE540", words=(0x020000F0, 1, 2, 3, 4, 5, 6, 7)))
        bd = pb.PEL(pb.SRC(ascii=b"BD8DE510", words=(0x020000F0, w, 2, 3, 4, 5, 6, 7)))
        y, x = (bc, bd) if case == "osrc-BC-BD" else (bd, bc)
        imp.present = lambda n: bool(sym_not(str_eq(n, "srcparsers.bsrc.bsrc")))      # no hostboot SRC parser installed
        imp.passthrough = {"srcparsers.osrc.osrc": osrc}                               # the real BMC SRC dispatcher
    elif case == "compid-lazy":
        # the component-name table is loaded lazily on first use: the first log of the process is shown like any later one
        cb = sym_bytes("c", 1)
        c = from_be([0x20, cb[0]])
        x = pb.PEL(pb.MT(comp=c), ph=dict(comp=c), uh=dict(comp=c))
        y = pb.PEL(pb.MT(comp=0x1000), ph=dict(comp=0x1000))
        lazy_table = {"O": {"2000": "bmc-logging", "2010": "bmc-state"}}
    elif case == "src-words-short":
        a = sym_int("a", 0, 0xFFFFFFFF)
        x = pb.PEL(pb.SRC(words=(0x020000F0, 1, 2, 3, 4, 5, 6, 7), wc=5))
        y = pb.PEL(pb.SRC(words=(0x020000F0, a, a, a, a, a, a, a), wc=9))
    elif case == "registry":
        ch = sym_int("ch", 0x30, 0x31)
        x = pb.PEL(pb.SRC(ascii=mkbytes(b"1100203", [ch], b" " * 24)))
        y = pb.PEL(pb.SRC(ascii=mkbytes(b"BD8D203", [ch], b" " * 24)))
    elif case == "summary-first":
        # one Config object serves a whole invocation: y is only summarised (as --list / look-ups do), then x is decoded
        s1 = sym_int("s1", 0, 255)
        x = pb.PEL(pb.SRC(flags=1, callouts=_co()), pb.UD(b"\x01\x02", sub=s1, comp=0x0777), ph=dict(creator=ord("B")))
        y = pb.PEL(pb.SRC(ascii=b"BD8D4444"), pb.UD(b"\x09", comp=0x0777), ph=dict(creator=ord("B"), eid=0x50000044))
    elif case in ("ud-plugin", "ud-fail"):
        s1, s2 = sym_int("s1", 0, 255), sym_int("s2", 0, 255)
        x = pb.PEL(pb.UD(b"\x01\x02", sub=s1, comp=0x0777), pb.ED(b"\x03", creator=ord("O"), comp=0x0777))
        y = pb.PEL(pb.UD(b"\x09", sub=s2, comp=0x0777))
        if case == "ud-fail":
            between = arg
    elif case == "src-fail":
        w = sym_int("w", 0, 0xFFFFFFFF)
        x = pb.PEL(pb.SRC(words=(0x020000F0, w, 3, 4, 5, 6, 7, 8)))
        y = pb.PEL(pb.SRC(ascii=b"BD8D7777"))
        between = arg
    elif case in ("callout-fail", "callout-unknown"):
        ch = sym_int("ch", 0x31, 0x39)
        x = pb.PEL(pb.SRC(flags=1, callouts=_co(mkbytes(b"BMC000", [ch], b"\0"))))
        y = pb.PEL(pb.SRC(flags=1, callouts=_co(b"BMC0042")))
        if case == "callout-fail":
            between = arg
        else:
            real_plugins = True       # the shipped ocallouts module, unknown procedure name in between
    elif case == "damaged":
        t = sym_int("t", 100, 140)
        x = pb.PEL(pb.SRC(flags=1, callouts=_co()), pb.LP(), pb.UD(b"\x01", comp=0x0777))
        full = pb.PEL(pb.SRC(flags=1, callouts=_co()), pb.LP(targets=(7, 8, 9)), pb.UD(b"\x02", comp=0x0777))
        y = None
        for cand in range(100, 141):
            if t == cand:
                y = full[:cand]
    elif case in ("ilog-mex-nimitz", "ilog-nimitz-mex"):
        p = pick("pte", ILOG_PTES)
        q = p                      # the same PTE value seen by the other drawer type first
        vx, vy = (2, 1) if case == "ilog-mex-nimitz" else (1, 2)
        x, y = _ilog(vx, p), _ilog(vy, q)
    elif case == "trace-mex-nimitz":
        hx = pick("h", TRACE_HASHES)
        hy = hx                    # the same hash looked up in the other string file first
        x, y = _trace(2, hx), _trace(1, hy)
    elif case == "hlog":
        a, b = sym_int("a", 0, 255), sym_int("b", 0, 255)
        x = pb.PEL(pb.UD(mkbytes([a], b"\x00\x01\x02"), ver=1, sub=72, comp=0x2C00), ph=dict(creator=ord("M")))
        y = pb.PEL(pb.UD(mkbytes([b], b"\x07\x00\x00\x05"), ver=2, sub=72, comp=0x2C00), ph=dict(creator=ord("M")))
    else:   # oe500: scratch register signature sections
        a, b = sym_bytes("a", 2), sym_bytes("b", 2)
        x = pb.PEL(pb.UD(mkbytes(b"\x00\x12", a, b"\x00\x00\x00\x07"), sub=5, comp=0xE500))
        y = pb.PEL(pb.UD(mkbytes(b"\x00\x34", b, b"\x00\x00\x00\x09"), sub=5, comp=0xE500))
    lazy = locals().get("lazy_table")
    orig_streams = (sys.stdout, sys.stderr)
    saved_pels = srcmod.registry.pels
    try:
        # reference: x decoded first in a fresh process state
        fresh_state()
        if case == "registry":
            srcmod.registry.pels = _load_registry()
        with env(None if real_plugins else imp) as e, _lazy(lazy):
            d1 = dec(x)
        # history: y (possibly failing) decoded first, then x - and x once more
        fresh_state()
        if case == "registry":
            srcmod.registry.pels = _load_registry()
        with env(None if real_plugins else imp) as e, _lazy(lazy):
            if between is not None:
                imp.behaviour = between
            if case == "summary-first":
                shared = Config()
                shared.every_pel = True
                d2 = peltool.parsePELSummary(DataStream(y, byte_order="big", is_signed=False), shared)
                imp.behaviour = 0
                d3 = dec(x, shared)
                d4 = dec(x, shared)
            else:
                d2 = dec(y)
                imp.behaviour = 0
                d3 = dec(x)
                d4 = dec(x)
    except Exception as ex:
        return verdict(False, obs={"exception": repr(ex)})
    finally:
        srcmod.registry.pels = saved_pels
    conds = [isinstance(d1, dict), doc_eq(d1, d3) if isinstance(d1, dict) and isinstance(d3, dict) else False,
             doc_eq(d1, d4) if isinstance(d1, dict) and isinstance(d4, dict) else False,
             # no decode leaves the interpreter's standard streams re-pointed
             sys.stdout is orig_streams[0] and sys.stderr is orig_streams[1]]
    sys.stdout, sys.stderr = orig_streams
    if case in ("src-words-short", "src-fail", "src-words") and isinstance(d1, dict) and not real_plugins:
        # what the SRC parser was handed for x is part of the outcome: words beyond the valid count are zero
        calls = [c for c in imp.calls if c.kind == "SRC"]
        conds.append(len(calls) >= 1)
    return verdict(sym_all(conds), obs={"first": d1, "third": d3, "second_kind": d2 if isinstance(d2, tuple) else "document"})


def _load_registry():
    """what a new process has: the message registry as the real Registry.loadJson() returns it for the fixture file"""
    import io
    import json as realjson
    from pel.peltool import registry as regmod
    from harness.C03_src import FIXTURE_REGISTRY
    text = realjson.dumps({"PELs": FIXTURE_REGISTRY})
    with patched(regmod, open=lambda p, *a, **k: io.StringIO(text)):
        return srcmod.registry.loadJson("/fixture/message_registry.json")


def h_step() -> bool:
    """
    post: _
    """
    kind, b = CASE.split(":")
    b = int(b)
    present = bool(sym_bool("module_exists"))
    cached = bool(sym_bool("already_cached"))
    imp = Scripted(behaviour=b, present=lambda n: present)
    imp0 = Scripted(behaviour=b, present=lambda n: present)
    names = {"ud": "udparsers.b0777.b0777", "src": "srcparsers.bsrc.bsrc", "callout": "calloutparsers.bcallouts.bcallouts"}
    x = pb.PEL(pb.SRC(flags=1, callouts=_co()), pb.UD(b"\x01\x02", comp=0x0777), pb.UD(b"\x03", comp=0x0777), ph=dict(creator=ord("B")))
    caches = {"ud": SymDict(), "src": SymDict(), "callout": SymDict()}
    if cached:    # a valid pre-state: the entry says what importing would say
        from vlib.stubs import FixtureModule
        caches[kind][names[kind]] = FixtureModule(imp, names[kind]) if present else None
    try:
        with env(imp, caches) as e:
            got = dec(x)
            post = {k: v.items() for k, v in e.caches.items()}
        with env(imp0) as e0:
            ref = dec(x)
    except Exception as ex:
        return verdict(False, obs={"exception": repr(ex)})
    conds = [doc_eq(got, ref) if isinstance(got, dict) and isinstance(ref, dict) else got == ref]
    # invariant afterwards: None <=> the module does not exist
    for cname, items in post.items():
        for name, val in items:
            conds.append((val is None) == (not present))
    return verdict(sym_all(conds), obs={"got": got if not isinstance(got, dict) else "doc", "ref": ref if not isinstance(ref, dict) else "doc",
                                        "post": {k: [(n, v is None) for n, v in it] for k, it in post.items()}})


def h_dirorder() -> bool:
    """
    post: _
    """
    t = sym_int("t", 100, 130)
    good1 = pb.PEL(pb.SRC(ascii=b"BD8D1111"), pb.UD(b"\x01", comp=0x4321), ph=dict(eid=0x50000011))
    good2 = pb.PEL(pb.SRC(ascii=b"BD8D3333"), pb.LP(), ph=dict(eid=0x50000033))
    full = pb.PEL(pb.SRC(ascii=b"BD8D2222"), pb.MT(), ph=dict(eid=0x50000022))
    bad = None
    for cand in range(100, 131):
        if t == cand:
            bad = full[:cand]
    files = [("b_bad", bad), ("a_good", good1), ("c_good", good2)] if CASE == "mid" else [("a_bad", bad), ("b_good", good1), ("c_good", good2)]
    outs = {}
    try:
        for rev in (False, True):
            w = World(files=files)
            ns = Namespace(**dict(ARG_DEFAULTS, path="/pels", all=True, reverse=rev, every_pel=True, skip_plugins=True))
            st = run_main(peltool, w, ns)
            outs[rev] = (st, [o.obj for o in w.stdout() if hasattr(o, "obj")])
        with env() as e:
            alone = [dec(good1), dec(good2)]
        for d in alone:
            pass
    except Exception as ex:
        return verdict(False, obs={"exception": repr(ex)})
    # stand-alone decodes were produced with plugins on (fixture-less): compare the plugin-independent part
    def strip(d):
        return {k: v for k, v in d.items()}
    fwd, rv = outs[False][1], outs[True][1]
    conds = [outs[False][0] == 0, outs[True][0] == 0, len(fwd) == 2, len(rv) == 2]
    if len(fwd) == 2 and len(rv) == 2:
        conds += [fwd[0] == rv[1], fwd[1] == rv[0],
                  fwd[0]["Private Header"]["Entry Id"] == "0x50000011", fwd[1]["Private Header"]["Entry Id"] == "0x50000033"]
    return verdict(sym_all(conds), obs={"fwd": [d["Private Header"]["Entry Id"] for d in fwd], "rev": [d["Private Header"]["Entry Id"] for d in rv]})
