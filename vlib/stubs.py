"""
Environment stubs (DESIGN.md 3.2).  Every stub is part of the claim; harnesses list the
ones they use under ASSUMPTIONS.

M7  FakeJson      json.dumps -> token str that remembers the object; loads(token) -> deep copy
E1  FakeFS        os.walk / os.path.isdir / isfile / open(read) over an in-memory directory
E2  recorders     os.remove, open(...,'w'), print, sys.stdout/stderr -> event list (+ fault injection)
E3  FakeImporter  importlib.import_module recorder with scripted results
"""
import copy
import json as _real_json

_token_n = [0]


class JsonToken(str):
    """text stand-in for json.dumps(obj); compare through .obj, never through the text"""
    def __new__(cls, obj, kw=None):
        _token_n[0] += 1
        s = str.__new__(cls, "<json-token-%d>" % _token_n[0])
        s.obj = obj
        s.kw = kw or {}
        return s


def _snapshot(o):
    """copy of the JSON-able structure that keeps symbolic leaves as they are"""
    if isinstance(o, dict):
        return {k: _snapshot(v) for k, v in o.items()}
    if isinstance(o, (list, tuple)):
        return [_snapshot(v) for v in o]
    return o


class FakeJson:
    """assumption A3: loads(dumps(x)) == x for str-keyed dict / list / str / int / bool / None"""
    JSONDecodeError = _real_json.JSONDecodeError
    decoder = _real_json.decoder

    def __init__(self):
        self.dumped = []

    def dumps(self, obj, **kw):
        t = JsonToken(_snapshot(obj), kw)
        self.dumped.append(t)
        return t

    def loads(self, s, **kw):
        if isinstance(s, JsonToken):
            return _snapshot(s.obj)
        return _real_json.loads(s, **kw)

    def load(self, fp, **kw):
        return _real_json.load(fp, **kw)

    def dump(self, obj, fp, **kw):
        return _real_json.dump(obj, fp, **kw)


class patched:
    """with patched(module, name=value, ...): module attributes replaced, restored on exit"""
    def __init__(self, module, **attrs):
        self.module, self.attrs, self.saved = module, attrs, {}

    def __enter__(self):
        for k, v in self.attrs.items():
            self.saved[k] = getattr(self.module, k, _MISSING)
            setattr(self.module, k, v)
        return self

    def __exit__(self, *a):
        for k, v in self.saved.items():
            if v is _MISSING:
                try:
                    delattr(self.module, k)
                except AttributeError:
                    pass
            else:
                setattr(self.module, k, v)
        return False


_MISSING = object()
