"""
Environment stubs (DESIGN.md 3.2).  Every stub is part of the claim; harnesses list the
ones they use under ASSUMPTIONS.

M7  FakeJson      json.dumps -> token str that remembers the object; loads(token) -> deep copy
E1  FakeFS        os.walk / os.path.isdir / isfile / open(read) over an in-memory directory
E2  recorders     os.remove, open(...,'w'), print, sys.stdout/stderr -> event list (+ fault injection)
E3  FakeImporter  importlib.import_module recorder with scripted results
"""
import copy
import json as _real_json

_token_n = [0]


_token_by_text = {}          # text -> token (a writer may hand the text over in pieces: _WFile re-assembles it)


class JsonToken(str):
    """text stand-in for json.dumps(obj); compare through .obj, never through the text"""
    def __new__(cls, obj, kw=None):
        _token_n[0] += 1
        s = str.__new__(cls, "<json-token-%d>" % _token_n[0])
        s.obj = obj
        s.kw = kw or {}
        _token_by_text[str.__str__(s)] = s
        return s


def _snapshot(o, sort=False):
    """copy of the JSON-able structure that keeps symbolic leaves as they are (sort: json.dumps(sort_keys=True))"""
    if isinstance(o, dict):
        items = list(o.items())
        if sort:
            items = sorted(items, key=lambda kv: kv[0])
        return {k: _snapshot(v, sort) for k, v in items}
    if isinstance(o, (list, tuple)):
        return [_snapshot(v, sort) for v in o]
    return o


class FakeJson:
    """assumption A3: loads(dumps(x)) == x for str-keyed dict / list / str / int / bool / None"""
    JSONDecodeError = _real_json.JSONDecodeError
    decoder = _real_json.decoder

    def __init__(self):
        self.dumped = []

    def dumps(self, obj, **kw):
        if obj is None or obj is True or obj is False:
            return _real_json.dumps(obj)        # scalars keep their real text (code compares it with 'null')
        t = JsonToken(_snapshot(obj, bool(kw.get("sort_keys"))), kw)
        self.dumped.append(t)
        return t

    def loads(self, s, **kw):
        if isinstance(s, JsonToken):
            return _snapshot(s.obj)
        return _real_json.loads(s, **kw)

    def load(self, fp, **kw):
        return _real_json.load(fp, **kw)

    def dump(self, obj, fp, **kw):
        return _real_json.dump(obj, fp, **kw)


class patched:
    """with patched(module, name=value, ...): module attributes replaced, restored on exit"""
    def __init__(self, module, **attrs):
        self.module, self.attrs, self.saved = module, attrs, {}

    def __enter__(self):
        for k, v in self.attrs.items():
            self.saved[k] = getattr(self.module, k, _MISSING)
            setattr(self.module, k, v)
        return self

    def __exit__(self, *a):
        for k, v in self.saved.items():
            if v is _MISSING:
                try:
                    delattr(self.module, k)
                except AttributeError:
                    pass
            else:
                setattr(self.module, k, v)
        return False


_MISSING = object()


# =====================================================================================
# E1/E2/E4: an in-memory world for the peltool command line
# =====================================================================================
import posixpath as _pp


class FaultInjected(OSError):
    pass


class WorldUnsupported(BaseException):
    """the code under test used an OS interface the in-memory world does not model: the harness cannot decide
    (BaseException: neither the code under test nor a harness turns it into a verdict; the runner reports a harness error)"""


class World:
    """In-memory directory tree + recorder of every observable effect.

    files   : list of (name, bytes) directly in `path` (os.walk order = list order)
    subdirs : dict name -> list of (name, bytes)
    extra   : dict absolute path -> bytes/str readable through open() (e.g. the --src-exclude file)
    fault_at: output step number (1-based, counted over open-for-write/write/flush/close/print events)
              at which an OSError is raised, or None / 0
    events  : ("stdout", obj) ("stderr", obj) ("open_w", path) ("write", path, data) ("close", path)
              ("remove", path) ("flush",) ("exit", code)
    """

    def __init__(self, path="/pels", files=(), subdirs=None, extra=None, fault_at=None, dirs=(), fault_kind="enospc"):
        self.fault_kind = fault_kind
        self.path = path
        self.files = list(files)
        self.subdirs = dict(subdirs or {})
        self.extra = dict(extra or {})
        self.fault_at = fault_at
        self.events = []
        self.steps = 0
        self.removed = []
        self.written = {}
        self.fds = {}
        self.dirs = set(dirs) | {path} | {_pp.join(path, d) for d in self.subdirs}

    # ---- fault injection
    def _step(self, what):
        self.steps += 1
        if self.fault_at is not None and self.fault_at == self.steps:
            self.events.append(("fault", what, self.steps))
            if self.fault_kind == 1 or self.fault_kind == "epipe":
                raise BrokenPipeError(32, "Broken pipe (injected at step %d: %s)" % (self.steps, what))
            if self.fault_kind == 2 or self.fault_kind == "eio":
                raise FaultInjected(5, "Input/output error (injected at step %d: %s)" % (self.steps, what))
            raise FaultInjected(28, "No space left on device (injected at step %d: %s)" % (self.steps, what))

    # ---- lookup
    def _lookup(self, p):
        d, n = _pp.split(p)
        if d == self.path.rstrip("/") or d + "/" == self.path:
            for name, data in self.files:
                if name == n:
                    return data
        for sd, entries in self.subdirs.items():
            if d == _pp.join(self.path, sd):
                for name, data in entries:
                    if name == n:
                        return data
        if p in self.extra:
            return self.extra[p]
        return None

    def stdout(self):
        return [e[1] for e in self.events if e[0] == "stdout"]

    def stderr(self):
        return [e[1] for e in self.events if e[0] == "stderr"]


class _RFile:
    def __init__(self, data, text):
        self.data, self.text = data, text

    def read(self):
        return self.data

    def readlines(self):
        return self.data.splitlines(True)

    def __iter__(self):
        return iter(self.readlines())

    def __enter__(self):
        return self

    def __exit__(self, *a):
        return False

    def close(self):
        pass


class _WFile:
    """file object open for writing.  truncated=False models a descriptor opened without O_TRUNC: what the file held
    before stays behind whatever is written now (event "stale_tail" at close) unless truncate() is called."""
    def __init__(self, world, path, truncated=True):
        self.w, self.path, self.closed = world, path, False
        self.truncated = truncated
        self.had_content = bool(world._lookup(path)) or bool(world.written.get(path))
        self._buf = ""
        self.w.written[path] = []

    def truncate(self, size=None):
        self.truncated = True
        return 0

    def writelines(self, s):
        self.w._step("write")
        if not hasattr(s, "obj") and isinstance(s, str) and (self._buf or "<json-token-".startswith(s[:12]) or s.startswith("<json-token-")):
            # a piece of a token's text (block-wise writer): re-assembled, recorded once complete
            self._buf += s
            tok = _token_by_text.get(self._buf)
            if tok is None:
                return
            s, self._buf = tok, ""
        self.w.events.append(("write", self.path, s))
        self.w.written[self.path].append(s)

    write = writelines

    def _flush_pieces(self):
        if self._buf:
            s, self._buf = self._buf, ""
            s = _token_by_text.get(s.strip(), s)        # white space around a JSON document is insignificant
            self.w.events.append(("write", self.path, s))
            self.w.written[self.path].append(s)

    def flush(self):
        self.w._step("flush")

    def close(self):
        if not self.closed:
            self.closed = True
            self._flush_pieces()
            self.w._step("close")
            if not self.truncated and self.had_content:
                self.w.events.append(("stale_tail", self.path))
            self.w.events.append(("close", self.path))

    def __enter__(self):
        return self

    def __exit__(self, et, ev, tb):
        self.close()
        return False


class FakeStderr:
    def __init__(self, world=None):
        self.w = world

    def write(self, s):
        if self.w is not None:
            self.w.events.append(("stderr", s, ""))
        return len(s)

    def flush(self):
        pass


class FakeStdout:
    def __init__(self, world):
        self.w = world

    def flush(self):
        self.w._step("flush-stdout")
        self.w.events.append(("flush",))

    def fileno(self):
        return 1

    def write(self, s):
        self.w._step("print")
        self.w.events.append(("stdout", s, ""))
        return len(s)


class FakeSys:
    def __init__(self, world, argv):
        self.argv = argv
        self.stderr = FakeStderr(world)
        self.stdout = FakeStdout(world)
        self._w = world

    def exit(self, code=0):
        self._w.events.append(("exit", code))
        raise SystemExit(code)


class _FakePath:
    join = staticmethod(_pp.join)
    basename = staticmethod(_pp.basename)
    dirname = staticmethod(_pp.dirname)
    splitext = staticmethod(_pp.splitext)

    def __init__(self, world):
        self.w = world

    def isdir(self, p):
        return p in self.w.dirs or p.rstrip("/") in self.w.dirs

    def isfile(self, p):
        return self.w._lookup(p) is not None

    def exists(self, p):
        return self.isdir(p) or self.isfile(p)


class FakeOs:
    def __init__(self, world):
        self.w = world
        self.path = _FakePath(world)

    def walk(self, top):
        if top.rstrip("/") != self.w.path.rstrip("/"):
            for sd, entries in self.w.subdirs.items():
                if top.rstrip("/") == _pp.join(self.w.path, sd):
                    yield top, [], [n for n, _ in entries]
            return
        yield top, list(self.w.subdirs.keys()), [n for n, _ in self.w.files]
        for sd, entries in self.w.subdirs.items():
            yield _pp.join(top, sd), [], [n for n, _ in entries]

    def remove(self, p):
        self.w.events.append(("remove", p))
        self.w.removed.append(p)

    def listdir(self, p):
        if p.rstrip("/") == self.w.path.rstrip("/"):
            return list(self.w.subdirs.keys()) + [n for n, _ in self.w.files]
        for sd, entries in self.w.subdirs.items():
            if p.rstrip("/") == _pp.join(self.w.path, sd):
                return [n for n, _ in entries]
        raise FileNotFoundError(2, "No such file or directory", p)

    def scandir(self, p="."):
        w = self.w

        class _Entry:
            def __init__(self, d, name, isdir, data):
                self.name, self.path, self._d, self._data = name, _pp.join(d, name), isdir, data

            def is_dir(self, follow_symlinks=True):
                return self._d

            def is_file(self, follow_symlinks=True):
                return not self._d and self._data is not None

        class _It(list):
            def __enter__(self):
                return self

            def __exit__(self, *a):
                return False

            def close(self):
                pass
        if p.rstrip("/") == w.path.rstrip("/"):
            return _It([_Entry(p, sd, True, None) for sd in w.subdirs] + [_Entry(p, n, False, d) for n, d in w.files])
        for sd, entries in w.subdirs.items():
            if p.rstrip("/") == _pp.join(w.path, sd):
                return _It([_Entry(p, n, False, d) for n, d in entries])
        raise FileNotFoundError(2, "No such file or directory", p)

    # low-level descriptor calls: recorded, harmless (a tool may re-point its stdout, e.g. to /dev/null)
    def open(self, path, flags=0, *a, **k):
        import os as _os
        fd = 1000 + len(self.w.events)
        if flags & (_os.O_WRONLY | _os.O_RDWR) and path != _os.devnull:
            # a regular file opened for writing through a descriptor
            self.w._step("open")
            self.w.events.append(("open_w", path))
            self.w.fds[fd] = [path, bool(flags & _os.O_TRUNC)]
            return fd
        self.w.events.append(("os_open", path))
        return fd

    def fdopen(self, fd, mode="r", *a, **k):
        if fd not in self.w.fds:
            raise OSError(9, "Bad file descriptor")
        path, trunc = self.w.fds[fd]
        return _WFile(self.w, path, truncated=trunc)

    def ftruncate(self, fd, length):
        if fd in self.w.fds:
            self.w.fds[fd][1] = True

    def dup2(self, fd, fd2, *a, **k):
        self.w.events.append(("dup2", fd, fd2))
        return fd2

    def close(self, fd):
        self.w.events.append(("os_close", fd))

    def __getattr__(self, name):
        import os as _os
        v = getattr(_os, name)
        if callable(v) and not isinstance(v, type):
            raise WorldUnsupported("os.%s is not available in the in-memory world" % name)
        return v          # constants such as os.devnull, os.O_WRONLY, os.sep


def make_open(world):
    def fake_open(path, mode="r", *a, **k):
        if "w" in mode or "a" in mode or "+" in mode:
            world._step("open")
            world.events.append(("open_w", path))
            return _WFile(world, path)
        data = world._lookup(path)
        if data is None:
            if path in world.dirs or path.rstrip("/") in world.dirs:
                raise IsADirectoryError(21, "Is a directory", path)
            raise FileNotFoundError(2, "No such file or directory", path)
        return _RFile(data, "b" not in mode)
    return fake_open


def make_print(world, fsys):
    def fake_print(*a, **k):
        f = k.get("file")
        chan = "stderr" if (f is fsys.stderr and f is not None) else "stdout"
        if chan == "stdout" and f is None and fsys.stdout is None:
            return                          # print() with sys.stdout None (fd 1 closed at start-up) discards the text
        if chan == "stdout":
            world._step("print")
        obj = a[0] if len(a) == 1 else a
        world.events.append((chan, obj, k.get("end", "\n")))
        if chan == "stdout" and k.get("flush"):
            fsys.stdout.flush()              # print(..., flush=True)
    return fake_print


class Namespace:
    def __init__(self, **kw):
        self.__dict__.update(kw)


ARG_DEFAULTS = dict(path=None, archive=False, skip_plugins=False, file=None, list=False, all=False, show_pel_count=False,
                    IDToDelete=None, deleteAll=False, pelID=None, bmcID=None, plID=None, src=None, src_exclude_file=None,
                    hex=False, reverse=False, extension=None, every_pel=False, serviceable=False, non_serviceable=False,
                    hidden=False, critSysTerm=False, severities=None, only=False, json=False, output_dir=None, clean=False)


class FakeArgparse:
    """E4: argparse whose parse_args() returns the namespace chosen by the harness; records the declared
    destinations so that a renamed / dropped option shows up as an AttributeError in main()."""
    RawDescriptionHelpFormatter = object

    def __init__(self, ns):
        self.ns = ns
        self.dests = []
        outer = self

        class _Group:
            def add_argument(self, *names, **kw):
                outer.dests.append(kw.get("dest") or names[-1].lstrip("-").replace("-", "_"))

        class ArgumentParser(_Group):
            def __init__(self, *a, **k):
                pass

            def add_argument_group(self, *a, **k):
                return _Group()

            def parse_args(self, *a, **k):
                return outer.ns

        self.ArgumentParser = ArgumentParser


def run_main(peltool, world, ns, fj=None, in_bmc=False, diag_modules=()):
    """run the real peltool.main() inside the world; returns exit status (None if main returned).
    diag_modules: further repo modules whose print / sys are routed into the world (section decoders
    that print diagnostics)"""
    import contextlib
    fj = fj or FakeJson()
    fsys = FakeSys(world, ["peltool.py"])
    if getattr(world, "no_stdout", False):
        fsys.stdout = None                  # the process was started with file descriptor 1 closed
    fos = FakeOs(world)
    if in_bmc:
        world.dirs.add("/var/lib/phosphor-logging/extensions/pels/logs/")
    status = None
    pr = make_print(world, fsys)
    try:
        with contextlib.ExitStack() as st:
            for m in diag_modules:
                st.enter_context(patched(m, print=pr, sys=fsys))
            st.enter_context(patched(peltool, json=fj, prettyPrint=lambda t, *a, **k: t, print=pr,
                                     open=make_open(world), os=fos, sys=fsys, argparse=FakeArgparse(ns)))
            peltool.main()
    except SystemExit as e:
        status = e.code
    return status


# =====================================================================================
# E3: importlib stub, fixture plugins, association-list caches
# =====================================================================================
class SymDict:
    """dict replacement for the repo's import caches: an association list searched with ==, so that a
    symbolic module name is compared (one solver-resolved fork per stored key) instead of hashed
    (hashing realises the whole string)."""

    def __init__(self, items=()):
        self._items = list(items)

    def _find(self, k):
        for i, (kk, _) in enumerate(self._items):
            if kk == k:
                return i
        return -1

    def __contains__(self, k):
        return self._find(k) >= 0

    def __getitem__(self, k):
        i = self._find(k)
        if i < 0:
            raise KeyError(k)
        return self._items[i][1]

    def __setitem__(self, k, v):
        i = self._find(k)
        if i < 0:
            self._items.append((k, v))
        else:
            self._items[i] = (k, v)

    def get(self, k, default=None):
        i = self._find(k)
        return default if i < 0 else self._items[i][1]

    def clear(self):
        self._items = []

    def items(self):
        return list(self._items)

    def keys(self):
        return [k for k, _ in self._items]

    def __len__(self):
        return len(self._items)

    def __bool__(self):
        return bool(self._items)


class PluginCall:
    def __init__(self, kind, module, args):
        self.kind, self.module, self.args = kind, module, args


class FixtureModule:
    """what importlib returns for a plugin: behaviour is a small int chosen by the harness
       0 returns a JSON object   1 returns a JSON list   2 returns None   3 returns ''
       4 raises Exception('boom')   5 raises an exception without arguments   6 raises ImportError
       7 raises AttributeError     8 returns JSON null                          9 returns a JSON string"""

    def __init__(self, imp, name):
        self._imp, self.__name__ = imp, name

    def _act(self, kind, args):
        self._imp.calls.append(PluginCall(kind, self.__name__, args))
        b = self._imp.behaviour
        fj = self._imp.json
        if b == 0:
            return fj.dumps({"Plugin": self.__name__, "Kind": kind})
        if b == 1:
            return fj.dumps(["plugin", "list"])
        if b == 2:
            return None
        if b == 3:
            return ""
        if b == 4:
            raise Exception("boom")
        if b == 5:
            raise KeyError()
        if b == 6:
            raise ImportError("No module named helper_of_plugin")
        if b == 7:
            raise AttributeError("'NoneType' object has no attribute 'x'")
        if b == 8:
            return fj.dumps(None)
        return fj.dumps("just a string")

    def parseUDToJson(self, subType, version, data):
        return self._act("UD", (subType, version, data))

    def parseSRCToJson(self, *words):
        return self._act("SRC", words)

    def getMaintProcDesc(self, name):
        self._imp.calls.append(PluginCall("CALLOUT", self.__name__, (name,)))
        b = self._imp.behaviour
        if b in (4, 5, 7):
            raise Exception("boom")
        if b == 6:
            raise ImportError("x")
        if b in (2, 3):
            return ""
        return self._imp.json.dumps(["fixture procedure text"])


class FakeImporter:
    """importlib.import_module recorder.  present(name) decides whether the module exists."""

    def __init__(self, json, behaviour=0, present=lambda name: True):
        self.json, self.behaviour, self.present = json, behaviour, present
        self.requested, self.calls = [], []

    def import_module(self, name, package=None):
        self.requested.append(name)
        real = getattr(self, "passthrough", {}).get(name)
        if real is not None:
            return real                 # a shipped module that is itself part of the code under test
        if not self.present(name):
            raise ModuleNotFoundError("No module named %r" % (name,))
        if getattr(self, "import_raises", None) is not None:
            raise self.import_raises            # a module that exists but fails while it is being imported
        return FixtureModule(self, name)
