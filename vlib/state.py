"""
Per-path reset of the repository's module-level / class-level state.

CrossHair re-executes the harness once per path inside one process.  State that the code under
test keeps between calls (import caches, one-shot loaders, a cache somebody adds later) would leak
from one *path* into the next and make the exploration non-deterministic.  snapshot() records, after
the harness module has imported what it needs, every module-level and class-level value of the
repo's modules that is a plain container or scalar; restore() puts them back (containers in place,
so aliases stay valid).  Within one path nothing is reset - that is where history effects (C19)
are observed.
"""
import copy
import os
import sys
import types

REPO_MODULES = os.path.join(os.environ.get("VERIF_REPO", "/repo"), "modules") + os.sep
_SCALARS = (bool, int, str, type(None), float, bytes, tuple)
_snap = None


def repo_modules():
    out = []
    for name, m in list(sys.modules.items()):
        f = getattr(m, "__file__", None) or ""
        if f.startswith(REPO_MODULES):
            out.append(m)
    return out


def _holders():
    for m in repo_modules():
        yield m
        for v in list(vars(m).values()):
            if isinstance(v, type) and getattr(v, "__module__", None) == m.__name__:
                yield v


def _REPO_NAMES():
    return {m.__name__ for m in repo_modules()}


def _copy(v):
    try:
        return copy.deepcopy(v)
    except Exception:
        return copy.copy(v)


PRELOAD = ["pel.peltool.peltool", "pel.hwdiags.parserdata", "io_drawer.dump", "io_drawer.ilog", "io_drawer.trace",
           "io_drawer.hlog", "udparsers.m2c00.m2c00", "udparsers.oe500.oe500", "srcparsers.osrc.osrc",
           "srcparsers.oe500.oe500", "calloutparsers.ocallouts.ocallouts"]


def snapshot():
    """(imports the repo's modules first: a module imported later, e.g. a plugin loaded by the code under
    test, would otherwise not be part of the snapshot and its state could not be reset)"""
    global _snap
    import importlib
    for name in PRELOAD:
        try:
            importlib.import_module(name)
        except Exception:
            pass
    _snap = []
    for h in _holders():
        for k, v in list(vars(h).items()):
            if k.startswith("__"):
                continue
            if type(v) in (dict, list, set):
                _snap.append((h, k, v, _copy(v)))
            elif type(v) in _SCALARS:
                _snap.append((h, k, None, v))
            elif isinstance(h, types.ModuleType) and type(v).__module__ in _REPO_NAMES() \
                    and hasattr(v, "__dict__") and not isinstance(v, (type, types.FunctionType, types.ModuleType)):
                # module-level instance of a repo class (e.g. src.registry): its attributes are state too
                _snap.append((v, "__dict__", v.__dict__, _copy(v.__dict__)))


def restore():
    if _snap is None:
        snapshot()
        return
    for h, k, obj, saved in _snap:
        if obj is None:
            if vars(h).get(k, _snap) is not saved:
                try:
                    setattr(h, k, saved)
                except Exception:
                    pass
        else:
            cur = vars(h).get(k) if k != "__dict__" else obj
            if cur is not obj:
                try:
                    setattr(h, k, obj)
                except Exception:
                    pass
            if isinstance(obj, dict):
                obj.clear()
                obj.update(_copy(saved))
            elif isinstance(obj, list):
                obj[:] = _copy(saved)
            else:
                obj.clear()
                obj.update(_copy(saved))


def inventory():
    """[(holder name, attribute, type name)] of every mutable container / rebindable scalar that is
    actually *written* at run time is decided elsewhere; this is the static list of containers"""
    out = []
    for h in _holders():
        for k, v in list(vars(h).items()):
            if k.startswith("__"):
                continue
            if type(v) in (dict, list, set):
                hn = h.__name__ if isinstance(h, types.ModuleType) else "%s.%s" % (h.__module__, h.__name__)
                out.append((hn, k, type(v).__name__))
    return sorted(out)
