"""
Replay a recorded witness on the real interpreter: `python -m vlib.replay FILE`.
Runs the very same harness function with sym_* returning the recorded values (vlib.api in
replay mode, CrossHair not involved) and prints  @@REPLAY@@ {"holds": bool, ...}.
"""
import importlib
import json
import os
import sys
import traceback


def main():
    path = sys.argv[1]
    doc = json.load(open(path))
    os.environ["VERIF_REPLAY"] = path
    os.environ["VERIF_CASE"] = doc.get("case", "")
    out = {}
    try:
        from vlib import api
        mod = importlib.import_module(doc["module"])
        fn = getattr(mod, doc["harness"])
        ret = fn()
        out = api.replay_result()
        out["returned"] = bool(ret)
        if "holds" not in out:
            out["holds"] = bool(ret)
    except BaseException as e:  # noqa: report everything
        name = type(e).__name__
        out = {"error": "%s: %s" % (name, e), "trace": traceback.format_exc()[-1500:]}
        if name == "ReplayAssumptionFailed":
            out["assumption_failed"] = True
    # (written to file descriptor 1 directly: the code under test may have re-pointed sys.stdout)
    sys.stdout.flush()
    os.write(1, ("\n@@REPLAY@@ " + json.dumps(out, sort_keys=True) + "\n").encode())


if __name__ == "__main__":
    main()
