"""
Model library M1..M6 (DESIGN.md section 3.1): keeps the operations this code base
lives on symbolic under CrossHair instead of realising (enumerating) their operand.

Every model is an *exact* integer-arithmetic definition of the Python operation for
the operand class it accepts (non-negative ints, concrete format templates); any
other operand falls back to CrossHair's stock (realising) behaviour, which is slow
but never wrong.  vlib/lemmas.py checks the models against CPython / z3 at set-up.

install() is idempotent and is called by vlib.api at import time, i.e. before
CrossHair starts tracing.
"""
import operator as ops
import re
import time

import z3

from crosshair import core as _core
from crosshair import statespace as _statespace
from crosshair.core import realize, deep_realize
from crosshair.libimpl import builtinslib as B
from crosshair.libimpl.builtinslib import (AnySymbolicStr, LazyIntSymbolicStr,
                                           SymbolicBytes, SymbolicInt)
from crosshair.statespace import context_statespace
from crosshair.tracers import NoTracing, ResumedTracing

STATS = {"smt_queries": 0, "smt_seconds": 0.0, "model_hits": {}, "model_fallbacks": {}}


# byte-structured integers: z3 ast id -> (ast, [z3 byte terms, big endian]).  An int produced by
# int.from_bytes (or by vlib.api.sym_int) is the sum of its bytes; hex digits, masks and byte shifts of
# such an int are then simple functions of ONE byte each, which keeps every solver query linear.
BYTES = {}


def register_bytes(term, byte_terms):
    BYTES[term.get_id()] = (term, list(byte_terms))


def bytes_of(term):
    hit = BYTES.get(term.get_id())
    if hit is not None and hit[0].eq(term):
        return hit[1]
    return None


def _structured(byte_terms):
    """SymbolicInt for sum(b_i * 256^i) (big-endian list), registered"""
    n = len(byte_terms)
    if n == 0:
        return SymbolicInt(z3.IntVal(0))
    if n == 1:
        total = byte_terms[0]
    else:
        total = z3.Sum([b if i == n - 1 else b * z3.IntVal(256 ** (n - 1 - i)) for i, b in enumerate(byte_terms)])
    register_bytes(total, byte_terms)
    return SymbolicInt(total)


def _hit(name):
    STATS["model_hits"][name] = STATS["model_hits"].get(name, 0) + 1


def _fallback(name):
    STATS["model_fallbacks"][name] = STATS["model_fallbacks"].get(name, 0) + 1


# --------------------------------------------------------------------------- M1
def mask_runs(c: int):
    """[(lo, length)] for every maximal run of one-bits of c >= 0."""
    runs, i = [], 0
    while c >> i:
        if (c >> i) & 1:
            lo = i
            while (c >> i) & 1:
                i += 1
            runs.append((lo, i - lo))
        else:
            i += 1
    return runs


def and_const_expr(xvar, c: int):
    """z3 Int term equal to x & c for x >= 0, c >= 0."""
    terms = []
    for lo, ln in mask_runs(c):
        t = xvar if lo == 0 else xvar / z3.IntVal(1 << lo)
        t = t % z3.IntVal(1 << ln)
        terms.append(t if lo == 0 else t * z3.IntVal(1 << lo))
    if not terms:
        return z3.IntVal(0)
    return terms[0] if len(terms) == 1 else z3.Sum(terms)


def _and_structured(bts, c):
    """byte terms of (x & c) for byte-structured x (big-endian bts), c >= 0 narrower than x or not"""
    n = len(bts)
    out = []
    for i, b in enumerate(bts):
        cj = (c >> (8 * (n - 1 - i))) & 0xFF
        if cj == 0:
            out.append(z3.IntVal(0))
        elif cj == 0xFF:
            out.append(b)
        else:
            out.append(and_const_expr(b, cj))
    return out


def _bitop(op, a, b):
    with NoTracing():
        a_sym, b_sym = isinstance(a, SymbolicInt), isinstance(b, SymbolicInt)
        if a_sym != b_sym and op is ops.and_:
            x, c = (a, b) if a_sym else (b, a)
            bts = bytes_of(x.var)
            if bts is not None and isinstance(c, int):
                n = len(bts)
                if c < 0:
                    c = c & (256 ** n - 1)      # x >= 0 and x < 256^n: high bits of the mask are irrelevant
                else:
                    c = c & (256 ** n - 1)
                _hit("M1s")
                return _structured(_and_structured(bts, c))
    return _bitop_generic(op, a, b)


def _rshift(op, a, b):
    with NoTracing():
        if isinstance(a, SymbolicInt) and not isinstance(b, SymbolicInt) and isinstance(b, int) and b >= 0 and b % 8 == 0:
            bts = bytes_of(a.var)
            if bts is not None:
                _hit("M1s")
                k = b // 8
                return _structured(bts[:len(bts) - k] if k < len(bts) else [])
    if b < 0:
        raise ValueError("negative shift count")
    b = realize(b)
    return a // (2 ** b)


def _bitop_generic(op, a, b):
    with NoTracing():
        a_sym, b_sym = isinstance(a, SymbolicInt), isinstance(b, SymbolicInt)
        if a_sym != b_sym:  # exactly one symbolic operand
            x, c = (a, b) if a_sym else (b, a)
            try:
                c = int(c)
            except Exception:
                c = None
            if c is not None:
                space = context_statespace()
                if space.smt_fork(x.var >= 0, probability_true=0.9):
                    if c >= 0:
                        andv = and_const_expr(x.var, c)
                    else:
                        andv = x.var - and_const_expr(x.var, ~c)
                    if op is ops.and_:
                        _hit("M1")
                        return SymbolicInt(andv)
                    if c >= 0:
                        _hit("M1")
                        if op is ops.or_:
                            return SymbolicInt(x.var + c - andv)
                        return SymbolicInt(x.var + c - 2 * andv)
        _fallback("M1")
        return op(realize(a), realize(b))


# --------------------------------------------------------------------------- M2
_SPEC_RE = re.compile(r"^(0?)([0-9]*)([xXd]?)$")
_MAX_DIGITS = 20


def _digit_cp(d, base, upper):
    if base == 10:
        return 48 + d
    return z3.If(d < 10, 48 + d, (55 if upper else 87) + d)


def _digit_at(xvar, base, i):
    if base == 16:
        bts = bytes_of(xvar)
        if bts is not None:
            j = len(bts) - 1 - i // 2
            if j < 0:
                return z3.IntVal(0)
            return bts[j] / 16 if i % 2 else bts[j] % 16
    return (xvar if i == 0 else xvar / z3.IntVal(base ** i)) % base


def format_int(x, zero: bool, width: int, base: int, upper: bool):
    """Symbolic str for a SymbolicInt x >= 0 (caller runs NoTracing); None = cannot."""
    space = context_statespace()
    if not space.smt_fork(x.var >= 0, probability_true=0.95):
        return None
    xv = x.var
    lo = max(width, 1)
    ndig = None
    for k in range(lo, _MAX_DIGITS + 1):
        if space.smt_fork(xv < z3.IntVal(base ** k), probability_true=0.9):
            ndig = k
            break
    if ndig is None:
        return None
    cps = []
    for i in reversed(range(ndig)):
        d = _digit_cp(_digit_at(xv, base, i), base, upper)
        if i > 0 and not zero:
            # leading positions are blanks (width padding) until the number reaches them
            d = z3.If(xv >= z3.IntVal(base ** i), d, 32)
        cps.append(SymbolicInt(d))
    return LazyIntSymbolicStr(cps)


def _min_digits_str(x, base, upper):
    """Minimal-length rendering (no padding) - forks on the digit count."""
    space = context_statespace()
    if not space.smt_fork(x.var >= 0, probability_true=0.95):
        return None
    for k in range(1, _MAX_DIGITS + 1):
        if space.smt_fork(x.var < z3.IntVal(base ** k), probability_true=0.6):
            return LazyIntSymbolicStr(
                [SymbolicInt(_digit_cp(_digit_at(x.var, base, i), base, upper))
                 for i in reversed(range(k))])
    return None


def _format_symint(x, spec: str):
    m = _SPEC_RE.match(spec)
    if not m:
        return None
    zero, width, typ = m.group(1) == "0", int(m.group(2) or 0), m.group(3) or "d"
    base = 10 if typ == "d" else 16
    if width == 0 or (not zero and width <= 1):
        return _min_digits_str(x, base, typ == "X")
    return format_int(x, zero, width, base, typ == "X")




def _format(obj, format_spec=""):
    with NoTracing():
        if isinstance(obj, SymbolicInt):
            if isinstance(format_spec, AnySymbolicStr):
                format_spec = realize(format_spec)
            if isinstance(format_spec, str):
                r = _format_symint(obj, format_spec)
                if r is not None:
                    _hit("M2")
                    return r
            _fallback("M2")
    return format(obj, format_spec)


# --------------------------------------------------------------------------- M3
_PCT_RE = re.compile(r"%([-#0 +]*)([0-9]*)(?:\.([0-9]+))?([diuxXcsr%])")


def _percent_pieces(template: str, args):
    """list of pieces (str / symbolic str) or None when the template is not modelled."""
    pieces, pos, ai = [], 0, 0
    for m in _PCT_RE.finditer(template):
        pieces.append(template[pos:m.start()])
        pos = m.end()
        flags, width, prec, typ = m.groups()
        if typ == "%":
            if flags or width or prec:
                return None
            pieces.append("%")
            continue
        if ai >= len(args):
            return None
        arg = args[ai]
        ai += 1
        if prec is not None or any(f not in "0" for f in flags):
            return None
        zero, w = "0" in flags, int(width or 0)
        if isinstance(arg, SymbolicInt):
            if typ in "diu":
                r = _format_symint(arg, ("0" if zero else "") + (str(w) if w else "") + "d")
            elif typ in "xX":
                r = _format_symint(arg, ("0" if zero else "") + (str(w) if w else "") + typ)
            elif typ == "c" and not w:
                with ResumedTracing():
                    r = chr(arg)
            elif typ == "s" and not w:
                r = _format_symint(arg, "d")
            else:
                return None
            if r is None:
                return None
            pieces.append(r)
        elif isinstance(arg, AnySymbolicStr):
            if typ != "s" or w:
                return None
            pieces.append(arg)
        elif isinstance(arg, B.CrossHairValue):
            return None
        else:
            pieces.append(("%" + flags + width + typ) % (arg,))
    if ai != len(args) or "%" in template[pos:]:
        return None
    pieces.append(template[pos:])
    return pieces


def _is_symbolic(v):
    return isinstance(v, B.CrossHairValue)


def _str_percent_format(self, other):
    with NoTracing():
        pieces = None
        if isinstance(self, str):
            if isinstance(other, tuple):
                args = other
            elif isinstance(other, (dict, list)) or (
                    _is_symbolic(other) and not isinstance(other, (SymbolicInt, AnySymbolicStr))):
                args = None
            else:
                args = (other,)
            if args is not None and any(_is_symbolic(a) for a in args):
                specs = [m.group(4) for m in _PCT_RE.finditer(self) if m.group(4) != "%"]
                if len(specs) != len(args) and all(t in "diuxX" for t in specs) \
                        and all(isinstance(a, (int, SymbolicInt)) for a in args) and "%" not in _PCT_RE.sub("", self):
                    # CPython rejects the call whatever the integer values are
                    _hit("M3")
                    raise TypeError("not enough arguments for format string" if len(specs) > len(args)
                                    else "not all arguments converted during string formatting")
                if "c" not in specs and all(isinstance(a, (int, SymbolicInt)) and not isinstance(a, bool) for a in args):
                    # with integer arguments (and no %c, whose range check depends on the value) CPython's verdict on
                    # the template - incomplete format, unsupported conversion, arity - does not depend on the values
                    exc = None
                    try:
                        str.__mod__(self, tuple(0 if isinstance(a, SymbolicInt) else a for a in args))
                    except (ValueError, TypeError) as e:
                        exc = e
                    if exc is not None:
                        _hit("M3")
                        raise type(exc)(*exc.args)
                pieces = _percent_pieces(self, args)
                if pieces is None:
                    _fallback("M3")
                else:
                    _hit("M3")
    if pieces is None:
        return self.__mod__(other)
    out = ""
    for p in pieces:
        if len(p) or _is_symbolic(p):
            out = out + p
    return out


# --------------------------------------------------------------------------- M4


def _hex(x):
    with NoTracing():
        if isinstance(x, SymbolicInt):
            r = _min_digits_str(x, 16, False)
            if r is not None:
                _hit("M4")
                with ResumedTracing():
                    return "0x" + r
            _fallback("M4")
    return hex(x)


# --------------------------------------------------------------------------- M5
def _bytes_decode(self, *a, **kw):
    with NoTracing():
        sym = isinstance(self, B.BytesLike)
    if sym:
        _hit("M5")
        return self.decode(*a, **kw)
    return bytes.decode(self, *a, **kw)


# --------------------------------------------------------------------------- M6


def _hexval_cp(c):
    return z3.If(z3.And(c >= 48, c <= 57), c - 48,
                 z3.If(z3.And(c >= 65, c <= 70), c - 55,
                       z3.If(z3.And(c >= 97, c <= 102), c - 87, -1)))


def _int(val=0, base=B._MISSING):
    with NoTracing():
        if isinstance(val, LazyIntSymbolicStr) and base is not B._MISSING \
                and not _is_symbolic(base) and base == 16:
            with ResumedTracing():
                n = len(val)
                cps = [ord(val[i]) for i in range(realize(n))]
            if cps:
                space = context_statespace()
                terms = [c.var if isinstance(c, SymbolicInt) else z3.IntVal(int(c)) for c in cps]
                digs = [_hexval_cp(t) for t in terms]
                if space.smt_fork(z3.And(*[d >= 0 for d in digs]), probability_true=0.9):
                    _hit("M6")
                    total = z3.Sum([d * z3.IntVal(16 ** i)
                                    for i, d in enumerate(reversed(digs))]) if len(digs) > 1 else digs[0]
                    return SymbolicInt(total)
            _fallback("M6")
    if base is B._MISSING:
        return int(val)
    return int(val, base)


# ------------------------------------------------------------------------- M8
def _ascii_case(self, to_upper, orig):
    """str.upper()/lower() for a symbolic string whose characters are all ASCII (solver-checked):
    code point arithmetic instead of CrossHair's whole-Unicode case tables"""
    with NoTracing():
        with ResumedTracing():
            n = realize(len(self))
            cps = [ord(self[i]) for i in range(n)]
        terms = [c.var if isinstance(c, SymbolicInt) else z3.IntVal(int(c)) for c in cps]
        space = context_statespace()
        if not terms or space.smt_fork(z3.And(*[t < 128 for t in terms]), probability_true=0.95):
            _hit("M8")
            out = []
            for c, t in zip(cps, terms):
                if not isinstance(c, SymbolicInt):
                    ch = chr(int(c))
                    out.append(ord(ch.upper() if to_upper else ch.lower()) if int(c) < 128 else int(c))
                elif to_upper:
                    out.append(SymbolicInt(z3.If(z3.And(t >= 97, t <= 122), t - 32, t)))
                else:
                    out.append(SymbolicInt(z3.If(z3.And(t >= 65, t <= 90), t + 32, t)))
            return LazyIntSymbolicStr(out)
        _fallback("M8")
    return orig(self)


# ------------------------------------------------------------------------- M9
def _str(*a, **kw):
    """str(bytes_like, encoding=..., errors=...): stock CrossHair's patch of `str` takes no keywords"""
    if kw or len(a) > 1:
        with NoTracing():
            sym = bool(a) and isinstance(a[0], B.CrossHairValue)
        if sym:
            enc = kw.get("encoding", a[1] if len(a) > 1 else "utf-8")
            err = kw.get("errors", a[2] if len(a) > 2 else "strict")
            _hit("M9")
            return a[0].decode(enc, err)
        with NoTracing():
            return str(*[realize(x) for x in a], **kw)
    return str(*a)


# ------------------------------------------------------------------------ M10
def _flatten(x, depth=0):
    """elements of a (nested) CrossHair sequence view as a flat list, without tracing; None = unknown shape"""
    from crosshair.simplestructs import SliceView, SequenceConcatenation, ShellMutableSequence
    if isinstance(x, (list, tuple, bytes, bytearray)):
        return list(x)
    if depth > 2000:
        return None
    if isinstance(x, SequenceConcatenation):
        a, b = _flatten(x._first, depth + 1), _flatten(x._second, depth + 1)
        return None if a is None or b is None else a + b
    if isinstance(x, SliceView):
        if type(x.start) is not int or type(x.stop) is not int:
            return None
        base = _flatten(x.seq, depth + 1)
        return None if base is None else base[x.start:x.stop]
    if isinstance(x, (ShellMutableSequence, B.SymbolicBytes, B.SymbolicByteArray)):
        return _flatten(x.inner, depth + 1)
    return None


def _fast_find(orig):
    """bytes.find(concrete needle) on a bytes-like value whose elements are mostly concrete: positions that
    mismatch on a concrete byte are skipped without consulting the solver; a position that depends on symbolic
    bytes is ONE fork on the conjunction of its byte equalities (stock CrossHair builds a symbolic comparison
    for every position: 20 s for a 180-byte buffer)"""
    def find(self, sub, start=None, end=None):
        with NoTracing():
            ok = start is None and end is None and isinstance(sub, (bytes, bytearray)) and len(sub) > 0
            elems = None
            if ok:
                import sys as _sys
                old = _sys.getrecursionlimit()
                _sys.setrecursionlimit(max(old, 10000))
                try:
                    elems = _flatten(self)
                finally:
                    _sys.setrecursionlimit(old)
                if elems is None:
                    with ResumedTracing():
                        elems = [x for x in self]
            if elems is not None and all(isinstance(e, (int, SymbolicInt)) for e in elems):
                space = context_statespace()
                n, m = len(elems), len(sub)
                _hit("M10")
                for i in range(n - m + 1):
                    conds, dead = [], False
                    for j in range(m):
                        e = elems[i + j]
                        if isinstance(e, SymbolicInt):
                            conds.append(e.var == sub[j])
                        elif int(e) != sub[j]:
                            dead = True
                            break
                    if dead:
                        continue
                    if not conds or space.smt_fork(z3.And(*conds) if len(conds) > 1 else conds[0]):
                        return i
                return -1
        return orig(self, sub, start, end)
    return find


# ------------------------------------------------------------------ from_bytes
def _int_from_bytes(b, byteorder="big", *, signed=False):
    with NoTracing():
        ok = isinstance(b, B.BytesLike) and isinstance(byteorder, str) and byteorder in ("big", "little") \
            and signed is False
    if ok:
        with NoTracing():
            with ResumedTracing():
                n = realize(len(b))
                elems = [b[i] for i in range(n)]
            if any(isinstance(e, SymbolicInt) for e in elems):
                if byteorder == "little":
                    elems.reverse()
                terms = [e.var if isinstance(e, SymbolicInt) else z3.IntVal(int(e)) for e in elems]
                _hit("from_bytes")
                return _structured(terms)
    return int.from_bytes(b, byteorder, signed=signed)


# ------------------------------------------------------------------- hex digits
def _make_hex_digit(value):
    """branch-free replacement of builtinslib.make_hex_digit (stock forks per nibble)."""
    with NoTracing():
        if isinstance(value, SymbolicInt):
            d = value.var % 16
            return SymbolicInt(z3.If(d < 10, 48 + d, 87 + d))
    num = value % 16
    return 48 + num if num < 10 else 87 + num


# --------------------------------------------------------------------- install
_installed = False


def _wrap_solver():
    orig = _statespace.solver_is_sat

    def solver_is_sat(solver, *exprs):
        t0 = time.perf_counter()
        try:
            return orig(solver, *exprs)
        finally:
            STATS["smt_queries"] += 1
            STATS["smt_seconds"] += time.perf_counter() - t0

    _statespace.solver_is_sat = solver_is_sat


OVERRIDES = {}


def install():
    """layer our overrides on top of CrossHair's own patches (nextfn chaining makes a
    call of the patched builtin from inside our override reach the stock patch)"""
    global _installed
    if _installed:
        return
    _installed = True
    from crosshair import core_and_libs  # noqa: F401  (stock registrations)
    for op in (ops.and_, ops.or_, ops.xor):
        B._BIN_OPS_SEARCH_ORDER.append((op, SymbolicInt, int, _bitop))
        B._BIN_OPS_SEARCH_ORDER.append((op, int, SymbolicInt, _bitop))
    B._BIN_OPS_SEARCH_ORDER.append((ops.rshift, SymbolicInt, int, _rshift))
    B._BIN_OPS.clear()
    OVERRIDES.update({format: _format, str.__mod__: _str_percent_format, hex: _hex,
                      int: _int, bytes.decode: _bytes_decode, int.from_bytes: _int_from_bytes, str: _str})
    B.make_hex_digit = _make_hex_digit
    _orig_upper, _orig_lower = AnySymbolicStr.upper, AnySymbolicStr.lower
    AnySymbolicStr.upper = lambda self: _ascii_case(self, True, _orig_upper)
    AnySymbolicStr.lower = lambda self: _ascii_case(self, False, _orig_lower)
    for cls in (B.SymbolicBytes, B.SymbolicByteArray):
        cls.find = _fast_find(cls.find)
    _wrap_solver()

    orig_enter, orig_exit = _core.Patched.__enter__, _core.Patched.__exit__

    def __enter__(self):
        r = orig_enter(self)
        _core.COMPOSITE_TRACER.patching_module.add(OVERRIDES)
        return r

    def __exit__(self, *a):
        _core.COMPOSITE_TRACER.patching_module.pop(OVERRIDES)
        return orig_exit(self, *a)

    _core.Patched.__enter__ = __enter__
    _core.Patched.__exit__ = __exit__
