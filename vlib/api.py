"""
Harness API (DESIGN.md section 2.2 / 3.1).  The same harness function is

* the *symbolic* program CrossHair executes (python3-vt): sym_* create fresh z3-backed
  values, assume() adds a non-forking constraint, verdict() is the assertion; and
* the *replay* program (/venv/bin/python, no CrossHair): sym_* return the values recorded
  in the replay file, assume() checks them, verdict() reports the outcome.

Environment (set by vlib/runner.py):
  VERIF_CASE       case id for harnesses instantiated over a concrete catalogue
  VERIF_REACH=1    reachability twin: verdict() always fails (must be refuted)
  (witnesses and statistics are emitted as "@@WITNESS@@ {json}" / "@@STATS@@ {json}" lines on stderr)
  VERIF_REPLAY     replay file (replay mode)
"""
import atexit
import json
import os
import sys
import time

try:
    import crosshair  # noqa: F401
    from crosshair.tracers import is_tracing as _is_tracing
    HAVE_CH = True
except Exception:  # replay interpreter
    HAVE_CH = False

    def _is_tracing():
        return False

CASE = os.environ.get("VERIF_CASE", "")
REACH = os.environ.get("VERIF_REACH", "") == "1"
_T0 = time.time()

if HAVE_CH and not os.environ.get("VERIF_REPLAY"):
    import z3
    from crosshair.core import proxy_for_type, realize, deep_realize
    from crosshair.statespace import context_statespace
    from crosshair.tracers import NoTracing, ResumedTracing
    from crosshair.util import IgnoreAttempt
    from crosshair.libimpl.builtinslib import (SymbolicBytes, SymbolicInt, SymbolicBool,
                                               LazyIntSymbolicStr, AnySymbolicStr)
    from vlib import chmodels
    chmodels.install()
    SYMBOLIC = True
else:
    SYMBOLIC = False


def _emit(tag, doc):
    """CrossHair's audit wall blocks open-for-write, so witnesses and statistics leave the
    worker as tagged single lines on stderr; vlib/runner.py collects them."""
    os.write(2, ("\n@@%s@@ %s\n" % (tag, json.dumps(doc, sort_keys=True))).encode())


class ReplayAssumptionFailed(Exception):
    pass


# --------------------------------------------------------------------- bookkeeping
_STATS = {"paths": 0, "verdict_true": 0, "verdict_false": 0, "assume_rejects": 0}
_cur = {"space": None, "syms": [], "n": 0}
_replay_values = None
_replay_result = {}


def _enc(v):
    if isinstance(v, (bytes, bytearray)):
        return {"__bytes__": bytes(v).hex()}
    if isinstance(v, (list, tuple)):
        return [_enc(x) for x in v]
    if isinstance(v, dict):
        return {str(k): _enc(x) for k, x in v.items()}
    if isinstance(v, (str, int, bool, float)) or v is None:
        return v
    return repr(v)


def _dec(v):
    if isinstance(v, dict) and "__bytes__" in v:
        return bytes.fromhex(v["__bytes__"])
    if isinstance(v, list):
        return [_dec(x) for x in v]
    if isinstance(v, dict):
        return {k: _dec(x) for k, x in v.items()}
    return v


def _newpath():
    """called from every sym_* / verdict: detects the start of a new path."""
    if not SYMBOLIC:
        return
    with NoTracing():
        sp = context_statespace()
        if _cur["space"] is not sp:
            _cur["space"] = sp
            _cur["syms"] = []
            _cur["n"] = 0
            _STATS["paths"] += 1


def _load_replay():
    global _replay_values
    if _replay_values is None:
        with open(os.environ["VERIF_REPLAY"]) as f:
            doc = json.load(f)
        _replay_values = {k: _dec(v) for k, v in doc.get("values", {}).items()}
    return _replay_values


def _register(name, value):
    _cur["syms"].append((name, value))


def _fresh(name):
    _cur["n"] += 1
    return "%s_%d" % (name, _cur["n"])


# ------------------------------------------------------------------------ symbols
def sym_int(name: str, lo: int, hi: int):
    """fresh integer in [lo, hi]"""
    if not SYMBOLIC:
        v = _load_replay()[name]
        if not (lo <= v <= hi):
            raise ReplayAssumptionFailed(name)
        return v
    _newpath()
    x = proxy_for_type(int, _fresh(name))
    with NoTracing():
        context_statespace().add(z3.And(x.var >= lo, x.var <= hi))
        _register(name, x)
    return x


def sym_bool(name: str):
    if not SYMBOLIC:
        return bool(_load_replay()[name])
    _newpath()
    x = proxy_for_type(bool, _fresh(name))
    with NoTracing():
        _register(name, x)
    return x


def sym_bytes(name: str, n: int, lo: int = 0, hi: int = 255):
    """fresh bytes object of concrete length n, every byte in [lo, hi]"""
    if not SYMBOLIC:
        v = _load_replay()[name]
        if len(v) != n or any(not (lo <= b <= hi) for b in v):
            raise ReplayAssumptionFailed(name)
        return bytes(v)
    _newpath()
    elems = []
    for i in range(n):
        x = proxy_for_type(int, _fresh("%s_%d" % (name, i)))
        with NoTracing():
            context_statespace().add(z3.And(x.var >= lo, x.var <= hi))
        elems.append(x)
    with NoTracing():
        b = SymbolicBytes(elems)
        _register(name, b)
    return b


def sym_str(name: str, n: int, alphabet: str = None):
    """fresh str of concrete length n over the given alphabet (None: any BMP-free ASCII 1..127)"""
    if not SYMBOLIC:
        v = _load_replay()[name]
        if len(v) != n or (alphabet is not None and any(c not in alphabet for c in v)):
            raise ReplayAssumptionFailed(name)
        return v
    _newpath()
    cps = []
    for i in range(n):
        x = proxy_for_type(int, _fresh("%s_%d" % (name, i)))
        with NoTracing():
            if alphabet is None:
                context_statespace().add(z3.And(x.var >= 1, x.var <= 127))
            else:
                context_statespace().add(z3.Or(*[x.var == ord(c) for c in sorted(set(alphabet))]))
        cps.append(x)
    with NoTracing():
        s = LazyIntSymbolicStr(cps)
        _register(name, s)
    return s


def mkbytes(*parts):
    """concatenate bytes / ints / symbolic bytes / symbolic ints into one bytes value"""
    if not SYMBOLIC:
        out = bytearray()
        for p in parts:
            if isinstance(p, int):
                out.append(p)
            else:
                out.extend(p)
        return bytes(out)
    with NoTracing():
        elems = []
        for p in parts:
            if isinstance(p, (bytes, bytearray)):
                elems.extend(p)
            elif isinstance(p, SymbolicBytes):
                elems.extend(list(p.inner))
            elif isinstance(p, (list, tuple)):
                elems.extend(p)
            else:
                elems.append(p)
        return SymbolicBytes(elems)


def be(value, nbytes: int):
    """big-endian byte list of a (possibly symbolic) non-negative int"""
    if not SYMBOLIC:
        return list(int(value).to_bytes(nbytes, "big"))
    with NoTracing():
        if not isinstance(value, SymbolicInt):
            return list(int(value).to_bytes(nbytes, "big"))
        out = []
        for i in reversed(range(nbytes)):
            t = value.var if i == 0 else value.var / z3.IntVal(256 ** i)
            out.append(SymbolicInt(t % 256))
        return out


# -------------------------------------------------------------------- constraints
def assume(cond):
    """non-forking assumption"""
    if not SYMBOLIC:
        if not cond:
            raise ReplayAssumptionFailed()
        return
    with NoTracing():
        if isinstance(cond, SymbolicBool):
            context_statespace().add(cond.var)
            return
        if hasattr(cond, "var") and z3.is_bool(cond.var):
            context_statespace().add(cond.var)
            return
    if not cond:
        _STATS["assume_rejects"] += 1
        raise IgnoreAttempt("assumption violated")


def sym_all(conds):
    """conjunction of (possibly symbolic) booleans as ONE value (no per-element fork)"""
    conds = list(conds)
    if not SYMBOLIC:
        return all(conds)
    with NoTracing():
        terms = []
        for c in conds:
            if isinstance(c, SymbolicBool):
                terms.append(c.var)
            elif hasattr(c, "var") and z3.is_bool(getattr(c, "var")):
                terms.append(c.var)
            elif isinstance(c, bool):
                if not c:
                    return False
            else:
                with ResumedTracing():
                    if not bool(c):
                        return False
        if not terms:
            return True
        return SymbolicBool(z3.And(*terms) if len(terms) > 1 else terms[0])


def sym_any(conds):
    conds = list(conds)
    if not SYMBOLIC:
        return any(conds)
    with NoTracing():
        terms = []
        for c in conds:
            if isinstance(c, SymbolicBool):
                terms.append(c.var)
            elif isinstance(c, bool):
                if c:
                    return True
            else:
                with ResumedTracing():
                    if bool(c):
                        return True
        if not terms:
            return False
        return SymbolicBool(z3.Or(*terms) if len(terms) > 1 else terms[0])


def sym_not(c):
    if not SYMBOLIC:
        return not c
    with NoTracing():
        if isinstance(c, SymbolicBool):
            return SymbolicBool(z3.Not(c.var))
    return not c


def sym_ite(c, a, b):
    """integer if-then-else without forking"""
    if not SYMBOLIC:
        return a if c else b
    with NoTracing():
        if isinstance(c, SymbolicBool):
            av = a.var if isinstance(a, SymbolicInt) else z3.IntVal(int(a))
            bv = b.var if isinstance(b, SymbolicInt) else z3.IntVal(int(b))
            return SymbolicInt(z3.If(c.var, av, bv))
    return a if c else b


def _cps(s):
    """code points of a str / symbolic str of concrete length (NoTracing context)"""
    if isinstance(s, str):
        return [ord(c) for c in s]
    if isinstance(s, LazyIntSymbolicStr):
        with ResumedTracing():
            n = realize(len(s))
            return [ord(s[i]) for i in range(n)]
    raise TypeError(type(s))


def str_eq(a, b):
    """a == b for two strings whose lengths are concrete, as ONE symbolic boolean"""
    if not SYMBOLIC:
        return a == b
    with NoTracing():
        if isinstance(a, str) and isinstance(b, str):
            return a == b
        if not isinstance(a, (str, LazyIntSymbolicStr)) or not isinstance(b, (str, LazyIntSymbolicStr)):
            with ResumedTracing():
                return a == b
        ca, cb = _cps(a), _cps(b)
        if len(ca) != len(cb):
            return False
        terms = []
        for x, y in zip(ca, cb):
            xs, ys = isinstance(x, SymbolicInt), isinstance(y, SymbolicInt)
            if not xs and not ys:
                if x != y:
                    return False
                continue
            xv = x.var if xs else z3.IntVal(int(x))
            yv = y.var if ys else z3.IntVal(int(y))
            terms.append(xv == yv)
        if not terms:
            return True
        return SymbolicBool(z3.And(*terms) if len(terms) > 1 else terms[0])


def doc_eq(a, b):
    """structural equality of JSON-like documents as ONE symbolic boolean (keys concrete)"""
    if not SYMBOLIC:
        return a == b
    conds = []

    def walk(x, y):
        with NoTracing():
            xd, yd = isinstance(x, dict), isinstance(y, dict)
            xl, yl = isinstance(x, (list, tuple)), isinstance(y, (list, tuple))
            xs = isinstance(x, (str, AnySymbolicStr))
            ys = isinstance(y, (str, AnySymbolicStr))
        if xd or yd:
            if not (xd and yd) or list(x.keys()) != list(y.keys()):
                return False
            return all(walk(x[k], y[k]) for k in x)
        if xl or yl:
            if not (xl and yl) or len(x) != len(y):
                return False
            return all(walk(p, q) for p, q in zip(x, y))
        if xs or ys:
            if not (xs and ys):
                return False
            conds.append(str_eq(x, y))
            return True
        conds.append(x == y)
        return True

    if not walk(a, b):
        return False
    return sym_all(conds)


def concrete(v):
    """realise a value (use only for observations / after the verdict is known)"""
    if not SYMBOLIC:
        return v
    with NoTracing():
        return deep_realize(v)


# ------------------------------------------------------------------------ verdict
def _dump_witness(kind, obs):
    with NoTracing():
        values = {}
        for name, sym in _cur["syms"]:
            try:
                values[name] = _enc(deep_realize(sym))
            except Exception as e:  # pragma: no cover
                values[name] = "<unrealisable: %r>" % (e,)
        try:
            obs_c = _enc(deep_realize(obs)) if obs is not None else None
        except Exception as e:
            obs_c = "<unrealisable: %r>" % (e,)
        doc = {"kind": kind, "case": CASE, "values": values, "observation": obs_c}
        _emit("WITNESS", doc)


def verdict(cond, obs=None):
    """the assertion.  obs: anything worth showing in a replay file."""
    if not SYMBOLIC:
        ok = bool(cond)
        _replay_result.update({"holds": ok, "observation": _enc(obs)})
        return ok
    _newpath()
    if REACH:
        _STATS["verdict_false"] += 1
        _dump_witness("reach", obs)
        return False
    ok = bool(cond)
    if ok:
        _STATS["verdict_true"] += 1
        return True
    _STATS["verdict_false"] += 1
    _dump_witness("cex", obs)
    return False


def replay_result():
    return dict(_replay_result)


def _dump_stats():
    if not SYMBOLIC:
        return
    st = dict(_STATS)
    st.update({k: v for k, v in chmodels.STATS.items()})
    st["wall_s"] = time.time() - _T0
    _emit("STATS", st)


atexit.register(_dump_stats)
