"""
Harness API (DESIGN.md section 2.2 / 3.1).  The same harness function is

* the *symbolic* program CrossHair executes (python3-vt): sym_* create fresh z3-backed
  values, assume() adds a non-forking constraint, verdict() is the assertion; and
* the *replay* program (/venv/bin/python, no CrossHair): sym_* return the values recorded
  in the replay file, assume() checks them, verdict() reports the outcome.

Environment (set by vlib/runner.py):
  VERIF_CASE       case id for harnesses instantiated over a concrete catalogue
  VERIF_REACH=1    reachability twin: verdict() always fails (must be refuted)
  (witnesses and statistics are emitted as "@@WITNESS@@ {json}" / "@@STATS@@ {json}" lines on stderr)
  VERIF_REPLAY     replay file (replay mode)
"""
import atexit
import json
import os
import sys
import time

try:
    import crosshair  # noqa: F401
    from crosshair.tracers import is_tracing as _is_tracing
    HAVE_CH = True
except Exception:  # replay interpreter
    HAVE_CH = False

    def _is_tracing():
        return False

CASE = os.environ.get("VERIF_CASE", "")
REACH = os.environ.get("VERIF_REACH", "") == "1"
_T0 = time.time()

if HAVE_CH and not os.environ.get("VERIF_REPLAY"):
    import z3
    from crosshair.core import proxy_for_type, realize, deep_realize
    from crosshair.statespace import context_statespace
    from crosshair.tracers import NoTracing, ResumedTracing
    from crosshair.util import IgnoreAttempt
    from crosshair.libimpl.builtinslib import (SymbolicBytes, SymbolicInt, SymbolicBool,
                                               LazyIntSymbolicStr, AnySymbolicStr)
    from vlib import chmodels, state
    chmodels.install()
    SYMBOLIC = True
else:
    SYMBOLIC = False


def _emit(tag, doc):
    """CrossHair's audit wall blocks open-for-write, so witnesses and statistics leave the
    worker as tagged single lines on stderr; vlib/runner.py collects them."""
    os.write(2, ("\n@@%s@@ %s\n" % (tag, json.dumps(doc, sort_keys=True))).encode())


if not SYMBOLIC:
    from vlib import state


def fresh_state():
    """put the repo's module / class level state back to what it was when the path started"""
    if SYMBOLIC:
        with NoTracing():
            state.restore()
    else:
        state.restore()


class ReplayAssumptionFailed(Exception):
    pass


# --------------------------------------------------------------------- bookkeeping
_STATS = {"paths": 0, "verdict_true": 0, "verdict_false": 0, "assume_rejects": 0}
_cur = {"space": None, "syms": [], "n": 0}
_replay_values = None
_replay_result = {}


def _enc(v):
    if isinstance(v, (bytes, bytearray)):
        return {"__bytes__": bytes(v).hex()}
    if isinstance(v, (list, tuple)):
        return [_enc(x) for x in v]
    if isinstance(v, dict):
        return {str(k): _enc(x) for k, x in v.items()}
    if isinstance(v, (str, int, bool, float)) or v is None:
        return v
    return repr(v)


def _dec(v):
    if isinstance(v, dict) and "__bytes__" in v:
        return bytes.fromhex(v["__bytes__"])
    if isinstance(v, list):
        return [_dec(x) for x in v]
    if isinstance(v, dict):
        return {k: _dec(x) for k, x in v.items()}
    return v


def _newpath():
    """called from every sym_* / verdict: detects the start of a new path."""
    if not SYMBOLIC:
        return
    with NoTracing():
        sp = context_statespace()
        if _cur["space"] is not sp:
            _cur["space"] = sp
            _cur["syms"] = []
            _cur["n"] = 0
            _BYTES_OF.clear()
            chmodels.BYTES.clear()
            state.restore()
            _STATS["paths"] += 1


def _load_replay():
    global _replay_values
    if _replay_values is None:
        with open(os.environ["VERIF_REPLAY"]) as f:
            doc = json.load(f)
        _replay_values = {k: _dec(v) for k, v in doc.get("values", {}).items()}
    return _replay_values


def _register(name, value):
    if any(n == name for n, _ in _cur["syms"]):
        raise RuntimeError("harness bug: symbol name %r used twice in one path (replay files are keyed by name)" % name)
    _cur["syms"].append((name, value))


def _fresh(name):
    _cur["n"] += 1
    return "%s_%d" % (name, _cur["n"])


# ------------------------------------------------------------------------ symbols
_BYTES_OF = {}   # z3 ast id of a multi-byte value -> its big-endian byte symbols


def _mkint(label):
    """fresh SymbolicInt (bypasses proxy_for_type, whose search heuristic sometimes realises
    a brand-new int 'prematurely', which would turn a bounded proof into an enumeration)"""
    return SymbolicInt(_fresh(label) + context_statespace().uniq())


def sym_int(name: str, lo: int, hi: int):
    """fresh integer in [lo, hi].  Values wider than one byte are built from independent byte
    symbols (value = sum b_i*256^i) so that the decoder's int.from_bytes of those same bytes is a
    linear term for the solver; be() returns exactly those byte symbols."""
    if not SYMBOLIC:
        v = _load_replay()[name]
        if not (lo <= v <= hi):
            raise ReplayAssumptionFailed(name)
        return v
    _newpath()
    with NoTracing():
        space = context_statespace()
        if hi < 256 or lo < 0:
            x = _mkint(name)
            space.add(z3.And(x.var >= lo, x.var <= hi))
        else:
            n = max(1, (hi.bit_length() + 7) // 8)
            bs = []
            for i in range(n):
                b = _mkint("%s_b%d" % (name, i))
                space.add(z3.And(b.var >= 0, b.var <= 255))
                bs.append(b)
            x = chmodels._structured([b.var for b in bs])
            total = x.var
            if lo > 0 or hi < 256 ** n - 1:
                space.add(z3.And(total >= lo, total <= hi))
            _BYTES_OF[total.get_id()] = (total, bs)
        _register(name, x)
    return x


def sym_bool(name: str):
    if not SYMBOLIC:
        return bool(_load_replay()[name])
    _newpath()
    with NoTracing():
        x = SymbolicBool(_fresh(name) + context_statespace().uniq())
        _register(name, x)
    return x


def sym_bytes(name: str, n: int, lo: int = 0, hi: int = 255):
    """fresh bytes object of concrete length n, every byte in [lo, hi]"""
    if not SYMBOLIC:
        v = _load_replay()[name]
        if len(v) != n or any(not (lo <= b <= hi) for b in v):
            raise ReplayAssumptionFailed(name)
        return bytes(v)
    _newpath()
    with NoTracing():
        elems = []
        for i in range(n):
            x = _mkint("%s_%d" % (name, i))
            context_statespace().add(z3.And(x.var >= lo, x.var <= hi))
            elems.append(x)
        b = SymbolicBytes(elems)
        _register(name, b)
    return b


def sym_str(name: str, n: int, alphabet: str = None):
    """fresh str of concrete length n over the given alphabet (None: any BMP-free ASCII 1..127)"""
    if not SYMBOLIC:
        v = _load_replay()[name]
        if len(v) != n or (alphabet is not None and any(c not in alphabet for c in v)):
            raise ReplayAssumptionFailed(name)
        return v
    _newpath()
    with NoTracing():
        cps = []
        for i in range(n):
            x = _mkint("%s_%d" % (name, i))
            if alphabet is None:
                context_statespace().add(z3.And(x.var >= 1, x.var <= 127))
            else:
                context_statespace().add(z3.Or(*[x.var == ord(c) for c in sorted(set(alphabet))]))
            cps.append(x)
        s = LazyIntSymbolicStr(cps)
        _register(name, s)
    return s


def mkbytes(*parts):
    """concatenate bytes / ints / symbolic bytes / symbolic ints into one bytes value"""
    if not SYMBOLIC:
        out = bytearray()
        for p in parts:
            if isinstance(p, int):
                out.append(p)
            else:
                out.extend(p)
        return bytes(out)
    with NoTracing():
        elems = []
        for p in parts:
            if isinstance(p, (bytes, bytearray)):
                elems.extend(p)
            elif isinstance(p, SymbolicBytes):
                elems.extend(list(p.inner))
            elif isinstance(p, (list, tuple)):
                elems.extend(p)
            else:
                elems.append(p)
        if all(type(e) is int for e in elems):
            return bytes(elems)          # fully concrete: a real bytes object
        return SymbolicBytes(elems)


def be(value, nbytes: int):
    """big-endian byte list of a (possibly symbolic) non-negative int"""
    if not SYMBOLIC:
        return list(int(value).to_bytes(nbytes, "big"))
    with NoTracing():
        if not isinstance(value, SymbolicInt):
            return list(int(value).to_bytes(nbytes, "big"))
        hit = _BYTES_OF.get(value.var.get_id())
        if hit is not None and hit[0].eq(value.var) and len(hit[1]) <= nbytes:
            return [0] * (nbytes - len(hit[1])) + list(hit[1])
        out = []
        for i in reversed(range(nbytes)):
            t = value.var if i == 0 else value.var / z3.IntVal(256 ** i)
            out.append(SymbolicInt(t % 256))
        return out


def from_be(byte_values):
    """integer whose big-endian bytes are the given (possibly symbolic) byte values"""
    if not SYMBOLIC:
        return int.from_bytes(bytes(byte_values), "big")
    with NoTracing():
        if not any(isinstance(b, SymbolicInt) for b in byte_values):
            return int.from_bytes(bytes(int(b) for b in byte_values), "big")
        return chmodels._structured([b.var if isinstance(b, SymbolicInt) else z3.IntVal(int(b)) for b in byte_values])


# -------------------------------------------------------------------- constraints
def assume(cond):
    """non-forking assumption"""
    if not SYMBOLIC:
        if not cond:
            raise ReplayAssumptionFailed()
        return
    with NoTracing():
        if isinstance(cond, SymbolicBool):
            context_statespace().add(cond.var)
            return
        if hasattr(cond, "var") and z3.is_bool(cond.var):
            context_statespace().add(cond.var)
            return
    if not cond:
        _STATS["assume_rejects"] += 1
        raise IgnoreAttempt("assumption violated")


def sym_all(conds):
    """conjunction of (possibly symbolic) booleans as ONE value (no per-element fork)"""
    conds = list(conds)
    if not SYMBOLIC:
        return all(conds)
    with NoTracing():
        terms = []
        for c in conds:
            if isinstance(c, SymbolicBool):
                terms.append(c.var)
            elif hasattr(c, "var") and z3.is_bool(getattr(c, "var")):
                terms.append(c.var)
            elif isinstance(c, bool):
                if not c:
                    return False
            else:
                with ResumedTracing():
                    if not bool(c):
                        return False
        if not terms:
            return True
        return SymbolicBool(z3.And(*terms) if len(terms) > 1 else terms[0])


def sym_any(conds):
    conds = list(conds)
    if not SYMBOLIC:
        return any(conds)
    with NoTracing():
        terms = []
        for c in conds:
            if isinstance(c, SymbolicBool):
                terms.append(c.var)
            elif isinstance(c, bool):
                if c:
                    return True
            else:
                with ResumedTracing():
                    if bool(c):
                        return True
        if not terms:
            return False
        return SymbolicBool(z3.Or(*terms) if len(terms) > 1 else terms[0])


def sym_not(c):
    if not SYMBOLIC:
        return not c
    with NoTracing():
        if isinstance(c, SymbolicBool):
            return SymbolicBool(z3.Not(c.var))
    return not c


def sym_ite(c, a, b):
    """integer if-then-else without forking"""
    if not SYMBOLIC:
        return a if c else b
    with NoTracing():
        if isinstance(c, SymbolicBool):
            av = a.var if isinstance(a, SymbolicInt) else z3.IntVal(int(a))
            bv = b.var if isinstance(b, SymbolicInt) else z3.IntVal(int(b))
            return SymbolicInt(z3.If(c.var, av, bv))
    return a if c else b


def _cps(s):
    """code points of a str / symbolic str of concrete length (NoTracing context)"""
    if isinstance(s, str):
        return [ord(c) for c in s]
    if isinstance(s, LazyIntSymbolicStr):
        with ResumedTracing():
            n = realize(len(s))
            return [ord(s[i]) for i in range(n)]
    raise TypeError(type(s))


def str_eq(a, b):
    """a == b for two strings whose lengths are concrete, as ONE symbolic boolean"""
    if not SYMBOLIC:
        return a == b
    with NoTracing():
        if isinstance(a, str) and isinstance(b, str):
            return a == b
        if not isinstance(a, (str, LazyIntSymbolicStr)) or not isinstance(b, (str, LazyIntSymbolicStr)):
            with ResumedTracing():
                return a == b
        ca, cb = _cps(a), _cps(b)
        if len(ca) != len(cb):
            return False
        terms = []
        for x, y in zip(ca, cb):
            xs, ys = isinstance(x, SymbolicInt), isinstance(y, SymbolicInt)
            if not xs and not ys:
                if x != y:
                    return False
                continue
            xv = x.var if xs else z3.IntVal(int(x))
            yv = y.var if ys else z3.IntVal(int(y))
            terms.append(xv == yv)
        if not terms:
            return True
        return SymbolicBool(z3.And(*terms) if len(terms) > 1 else terms[0])


def doc_eq(a, b):
    """structural equality of JSON-like documents as ONE symbolic boolean (keys concrete)"""
    if not SYMBOLIC:
        return a == b
    conds = []

    def walk(x, y):
        with NoTracing():
            xd, yd = isinstance(x, dict), isinstance(y, dict)
            xl, yl = isinstance(x, (list, tuple)), isinstance(y, (list, tuple))
            xs = isinstance(x, (str, AnySymbolicStr))
            ys = isinstance(y, (str, AnySymbolicStr))
        if xd or yd:
            if not (xd and yd) or list(x.keys()) != list(y.keys()):
                return False
            return all(walk(x[k], y[k]) for k in x)
        if xl or yl:
            if not (xl and yl) or len(x) != len(y):
                return False
            return all(walk(p, q) for p, q in zip(x, y))
        if xs or ys:
            if not (xs and ys):
                return False
            conds.append(str_eq(x, y))
            return True
        conds.append(x == y)
        return True

    if not walk(a, b):
        return False
    return sym_all(conds)


def concrete(v):
    """realise a value (use only for observations / after the verdict is known)"""
    if not SYMBOLIC:
        return v
    with NoTracing():
        return deep_realize(v)


# ------------------------------------------------------------------------ verdict
def _dump_witness(kind, obs):
    with NoTracing():
        values = {}
        for name, sym in _cur["syms"]:
            try:
                values[name] = _enc(deep_realize(sym))
            except Exception as e:  # pragma: no cover
                values[name] = "<unrealisable: %r>" % (e,)
        try:
            obs_c = _enc(deep_realize(obs)) if obs is not None else None
        except Exception as e:
            obs_c = "<unrealisable: %r>" % (e,)
        doc = {"kind": kind, "case": CASE, "values": values, "observation": obs_c}
        _emit("WITNESS", doc)


def verdict(cond, obs=None):
    """the assertion.  obs: anything worth showing in a replay file."""
    if not SYMBOLIC:
        ok = bool(cond)
        _replay_result.update({"holds": ok, "observation": _enc(obs)})
        return ok
    _newpath()
    if REACH:
        _STATS["verdict_false"] += 1
        _dump_witness("reach", obs)
        return False
    ok = bool(cond)
    if ok:
        _STATS["verdict_true"] += 1
        return True
    _STATS["verdict_false"] += 1
    _dump_witness("cex", obs)
    return False


def replay_result():
    return dict(_replay_result)


def _dump_stats():
    if not SYMBOLIC:
        return
    st = dict(_STATS)
    st.update({k: v for k, v in chmodels.STATS.items()})
    st["wall_s"] = time.time() - _T0
    _emit("STATS", st)


atexit.register(_dump_stats)


# ------------------------------------------------------------- numeric / text oracles
def _digit_terms(s, base):
    """(list of digit terms or ints, list of validity conditions) for a digit string of concrete length"""
    cps = _cps(s)
    if len(cps) >= 2 and base == 16 and not isinstance(cps[0], SymbolicInt) \
            and not isinstance(cps[1], SymbolicInt) and int(cps[0]) == 48 and int(cps[1]) in (120, 88):
        cps = cps[2:]
    digs, valid = [], []
    for c in cps:
        if isinstance(c, SymbolicInt):
            v = c.var
            if base == 16:
                d = z3.If(z3.And(v >= 48, v <= 57), v - 48,
                          z3.If(z3.And(v >= 65, v <= 70), v - 55,
                                z3.If(z3.And(v >= 97, v <= 102), v - 87, -1)))
            else:
                d = z3.If(z3.And(v >= 48, v <= 57), v - 48, -1)
            digs.append(d)
            valid.append(d >= 0)
        else:
            ch = chr(int(c))
            try:
                d = int(ch, base)
            except ValueError:
                d = -1
            if d < 0:
                return None, None
            digs.append(z3.IntVal(d))
    return digs, valid


def numval_eq(s, value, base=16):
    """'the digit string s denotes the integer value' (optional 0x prefix for base 16; any zero
    padding) as ONE boolean.  s: str or symbolic str of concrete length; value: int / symbolic int."""
    if not SYMBOLIC:
        try:
            t = s[2:] if (base == 16 and s[:2] in ("0x", "0X")) else s
            if not t or any(c not in "0123456789abcdefABCDEF"[:(22 if base == 16 else 10)] for c in t):
                return False
            return int(t, base) == value
        except Exception:
            return False
    with NoTracing():
        if not isinstance(s, (str, LazyIntSymbolicStr)):
            return False
        digs, valid = _digit_terms(s, base)
        if not digs:
            return False
        bts = chmodels.bytes_of(value.var) if isinstance(value, SymbolicInt) else None
        if base == 16 and bts is not None:
            # digit-wise: digit i (from the right) == nibble i of the value; surplus digits / nibbles == 0
            conds = list(valid)
            nn = 2 * len(bts)
            for i in range(max(nn, len(digs))):
                d = digs[len(digs) - 1 - i] if i < len(digs) else z3.IntVal(0)
                if i < nn:
                    bj = bts[len(bts) - 1 - i // 2]
                    e = bj / 16 if i % 2 else bj % 16
                else:
                    e = z3.IntVal(0)
                conds.append(d == e)
            c = z3.simplify(z3.And(*conds))
            if z3.is_true(c) or z3.is_false(c):
                return z3.is_true(c)
            return SymbolicBool(c)
        vv = value.var if isinstance(value, SymbolicInt) else z3.IntVal(int(value))
        if isinstance(value, SymbolicInt):
            # positional notation, digit by digit: digit j == (value div base^j) mod base, nothing above
            L = len(digs)
            conds = list(valid) + [vv >= 0, vv < z3.IntVal(base ** L)]
            for j in range(L):
                q = vv if j == 0 else vv / z3.IntVal(base ** j)
                conds.append(digs[L - 1 - j] == q % base)
            cond = z3.And(*conds)
        else:
            total = z3.Sum([d * z3.IntVal(base ** i) for i, d in enumerate(reversed(digs))]) if len(digs) > 1 else digs[0]
            cond = z3.And(*(valid + [total == vv]))
        return SymbolicBool(z3.simplify(cond)) if not z3.is_true(z3.simplify(cond)) and not z3.is_false(z3.simplify(cond)) \
            else z3.is_true(z3.simplify(cond))


def str_is(s, cps):
    """s == ''.join(chr(c) for c in cps) as ONE boolean; cps: ints / symbolic ints"""
    if not SYMBOLIC:
        return s == "".join(chr(c) for c in cps)
    with NoTracing():
        if not isinstance(s, (str, LazyIntSymbolicStr)):
            return False
        mine = _cps(s)
        if len(mine) != len(cps):
            return False
        terms = []
        for x, y in zip(mine, cps):
            xs, ys = isinstance(x, SymbolicInt), isinstance(y, SymbolicInt)
            if not xs and not ys:
                if int(x) != int(y):
                    return False
                continue
            terms.append((x.var if xs else z3.IntVal(int(x))) == (y.var if ys else z3.IntVal(int(y))))
        if not terms:
            return True
        return SymbolicBool(z3.And(*terms) if len(terms) > 1 else terms[0])


def byte_at(b, i):
    """b[i] for concrete i"""
    return b[i]


def nib(x, hi):
    """high / low nibble of a byte value (int or symbolic) without forking"""
    if not SYMBOLIC:
        return (x >> 4) & 0xF if hi else x & 0xF
    with NoTracing():
        if isinstance(x, SymbolicInt):
            return SymbolicInt((x.var / 16) % 16 if hi else x.var % 16)
    return (x >> 4) & 0xF if hi else x & 0xF


def bit_set(x, k):
    """bit k of a non-negative int as ONE boolean (no fork)"""
    if not SYMBOLIC:
        return (x >> k) & 1 == 1
    with NoTracing():
        if isinstance(x, SymbolicInt):
            q = x.var if k == 0 else x.var / z3.IntVal(1 << k)
            return SymbolicBool(q % 2 == 1)
    return (x >> k) & 1 == 1


def is_sym(v):
    if not SYMBOLIC:
        return False
    with NoTracing():
        from crosshair.core import CrossHairValue
        return isinstance(v, CrossHairValue)


def mkstr(cps):
    """str from a list of code points (ints / symbolic ints)"""
    if not SYMBOLIC:
        return "".join(chr(c) for c in cps)
    with NoTracing():
        if not any(isinstance(c, SymbolicInt) for c in cps):
            return "".join(chr(int(c)) for c in cps)
        return LazyIntSymbolicStr(list(cps))


def hexdigit_cp(d, upper=True):
    """code point of hex digit d (0..15), branch-free"""
    if not SYMBOLIC:
        return ord(("0123456789ABCDEF" if upper else "0123456789abcdef")[d])
    with NoTracing():
        if isinstance(d, SymbolicInt):
            return SymbolicInt(z3.If(d.var < 10, 48 + d.var, (55 if upper else 87) + d.var))
    return ord(("0123456789ABCDEF" if upper else "0123456789abcdef")[d])


def bytes_eq(a, b):
    """equality of two byte sequences of concrete lengths as ONE boolean"""
    if not SYMBOLIC:
        return bytes(a) == bytes(b)
    la, lb = list(a), list(b)
    if len(la) != len(lb):
        return False
    return sym_all([x == y for x, y in zip(la, lb)])


# ------------------------------------------------------------------- hang detection
class HangDetected(BaseException):
    """(BaseException: a broad 'except Exception' inside the code under test must not swallow it)"""
    pass


class deadline:
    """with deadline(seconds): ...   raises HangDetected inside the block when it runs longer.
    (interval timer + signal handler: works in tight pure-Python loops, symbolic and replay mode)"""
    def __init__(self, seconds):
        self.seconds = seconds

    def __enter__(self):
        import signal

        def _h(signum, frame):
            raise HangDetected("no progress for %ss" % self.seconds)
        self._old = signal.signal(signal.SIGALRM, _h)
        signal.setitimer(signal.ITIMER_REAL, self.seconds, 1.0)      # keeps firing every second after the deadline
        return self

    def __exit__(self, *a):
        import signal
        signal.setitimer(signal.ITIMER_REAL, 0)
        signal.signal(signal.SIGALRM, self._old)
        return False


def same_decimal(a, b, nd):
    """'a and b have the same nd-digit decimal rendering' (digit by digit, b < 10^nd): ONE boolean.
    Equivalent to a == b for b < 10^nd, but stated on the digits the solver already reasons about."""
    if not SYMBOLIC:
        return a == b
    with NoTracing():
        av = a.var if isinstance(a, SymbolicInt) else z3.IntVal(int(a))
        bv = b.var if isinstance(b, SymbolicInt) else z3.IntVal(int(b))
        conds = [av >= 0, av < z3.IntVal(10 ** nd)]
        for k in range(nd):
            qa = av if k == 0 else av / z3.IntVal(10 ** k)
            qb = bv if k == 0 else bv / z3.IntVal(10 ** k)
            conds.append(qa % 10 == qb % 10)
        return SymbolicBool(z3.And(*conds))


def untraced(fn, *a, **k):
    """run fn on concrete arguments outside CrossHair's tracer (plain CPython speed)"""
    if not SYMBOLIC:
        return fn(*a, **k)
    with NoTracing():
        return fn(*a, **k)
