"""Regenerates MANIFEST.json from the table below (python3-vt -B -m vlib.mkmanifest)."""
import glob
import json
import os

VERIF = os.path.dirname(os.path.dirname(os.path.abspath(__file__)))

TECH = ("bounded symbolic execution of the real Python functions (CrossHair 0.0.110, one z3 query per fork), "
        "post-condition against an independent oracle; verdict = 'Confirmed over all paths' within the stated "
        "bounds or a counter-example replayed on /venv/bin/python")
NOTE = ("trusted: CrossHair's models of bytes/str/dict/re and z3; the model library vlib/chmodels.py (M1-M6, "
        "checked at set-up by z3 lemmas and a differential test against CPython); the environment stubs named in "
        "the evidence file's assumptions; engine runs CPython 3.11, replays run the repo's 3.12")

NOT_YET = "check not built yet in this round (harness planned in DESIGN.md section 5)"


def main():
    props = [json.loads(l)["id"] for l in open(os.path.join(VERIF, "properties.jsonl"))]
    from vlib import claims
    CHECKS = claims.CHECKS
    checks, na = [], []
    for pid in props:
        have = glob.glob(os.path.join(VERIF, "harness", pid + "_*.py"))
        if pid in CHECKS and have:
            ref, text = CHECKS[pid]
            checks.append({
                "property_id": pid,
                "quick_cmd": "./check %s --tier quick" % pid,
                "thorough_cmd": "./check %s --tier thorough" % pid,
                "evidence_file": "evidence/%s.json" % pid,
                "replay_cmd_template": "./check %s --replay {path}" % pid,
                "engine": "crosshair-z3",
                "level_claimed": {"category": "model_checking", "text": text, "design_ref": ref},
                "level_note": NOTE,
                "technique": TECH,
            })
        else:
            na.append({"property_id": pid, "reason": claims.NA.get(pid, NOT_YET)})
    man = {
        "version": 1,
        "setup_cmd": "python3-vt -B -m vlib.lemmas",
        "hooks": {
            "guard": "OPENPOWER_PEL_PARSERS_VERIF",
            "enable": "none needed: all interception is CrossHair-side (module-attribute stubs inside the harness process); /repo is imported read-only with PYTHONDONTWRITEBYTECODE=1",
            "baseline_off_cmd": "cd /repo && /venv/bin/python -m pytest -ra -q -p no:cacheprovider --timeout=900 --continue-on-collection-errors test",
            "source_commits": [],
            "add_only": True,
        },
        "engines": [{"name": "crosshair-z3", "path": "vlib/runner.py",
                     "serves_properties": [c["property_id"] for c in checks],
                     "kind_free_text": "symbolic execution of /repo's Python with CrossHair + z3; harnesses in harness/, model library vlib/chmodels.py, stubs vlib/stubs.py"}],
        "checks": checks,
        "not_applicable": na,
        "notes": "Every check exits 0 / 1(+VIOLATION line) / 3 (harness error, never with a VIOLATION line). Genuine defects repaired by 'fix:' commits are listed in known_findings.txt.",
    }
    with open(os.path.join(VERIF, "MANIFEST.json"), "w") as f:
        json.dump(man, f, indent=1)
    try:
        import jsonschema
        jsonschema.validate(man, json.load(open("/root/.vp/MANIFEST.schema.json")))
        print("MANIFEST.json valid: %d checks, %d not_applicable" % (len(checks), len(na)))
    except ImportError:
        print("written (jsonschema not available)")


if __name__ == "__main__":
    main()
