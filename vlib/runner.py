"""
Runner: ./check <Cxx> [--tier quick|thorough] [--replay FILE] [--only SUBSTR] [--jobs N]

For the property's harness module (harness/<Cxx>_*.py) it starts one CrossHair process per
(harness function, case, interpreter mode) and one per reachability twin, collects the
verdicts, replays every counter-example and every reachability witness on the real
interpreter (/venv/bin/python, with -O where the harness asks for it), prints
VIOLATION / KNOWN-FINDING lines and writes evidence/<Cxx>.json.

Exit status: 0 no (non-known) violation; 1 violation (VIOLATION line printed);
3 harness error (a counter-example that does not reproduce, a vacuous harness, a crash of
the machinery) - never accompanied by a VIOLATION line.
"""
import argparse
import concurrent.futures as cf
import glob
import importlib
import json
import os
import re
import subprocess
import sys
import time

VERIF = os.path.dirname(os.path.dirname(os.path.abspath(__file__)))
REPO = os.environ.get("VERIF_REPO", "/repo")
SYM_PY = os.environ.get("VERIF_SYM_PY", "python3-vt")
REAL_PY = os.environ.get("VERIF_REAL_PY", "/venv/bin/python")
KNOWN_FILE = os.path.join(VERIF, "known_findings.txt")

DEFAULT_T = {"quick": 60, "thorough": 300}


def base_env():
    env = dict(os.environ)
    env["PYTHONPATH"] = os.pathsep.join([os.path.join(REPO, "modules"), VERIF])
    env["PYTHONDONTWRITEBYTECODE"] = "1"
    env["PYTHONHASHSEED"] = "0"
    for k in ("VERIF_CASE", "VERIF_REACH", "VERIF_REPLAY"):
        env.pop(k, None)
    return env


def find_module(pid):
    hits = sorted(glob.glob(os.path.join(VERIF, "harness", pid + "_*.py")))
    if not hits:
        raise SystemExit("no harness module for %s" % pid)
    return "harness." + os.path.basename(hits[0])[:-3]


def load_meta(modname):
    """import the harness module in a child (replay-mode) to read HARNESSES / BOUNDS / ..."""
    code = ("import json,sys,importlib; m=importlib.import_module(%r); "
            "print(json.dumps({k:getattr(m,k,None) for k in "
            "('HARNESSES','BOUNDS','FUNCTIONS','ASSUMPTIONS','OUTSIDE','TECHNIQUE')}))" % modname)
    env = base_env()
    env["VERIF_REPLAY"] = os.devnull
    out = subprocess.run([SYM_PY, "-c", code], env=env, capture_output=True, text=True, cwd=VERIF)
    if out.returncode != 0:
        raise SystemExit("cannot load %s:\n%s" % (modname, out.stderr))
    return json.loads(out.stdout.strip().splitlines()[-1])


_TAG = re.compile(r"^@@(WITNESS|STATS)@@ (.*)$")


def run_crosshair(modname, fn, case, reach, opt, T, per_path):
    env = base_env()
    env["VERIF_CASE"] = case
    if reach:
        env["VERIF_REACH"] = "1"
    cmd = ["timeout", "-k", "10", str(int(T * 1.5) + 60), SYM_PY]
    if opt:
        cmd.append("-O")
    cmd += ["-m", "crosshair", "check", "--report_all", "--analysis_kind", "PEP316",
            "--per_condition_timeout", str(T), "--per_path_timeout", str(per_path),
            "%s.%s" % (modname, fn)]
    t0 = time.time()
    p = subprocess.run(cmd, env=env, capture_output=True, text=True, cwd=VERIF)
    wall = time.time() - t0
    witnesses, stats = [], {}
    for line in p.stderr.splitlines():
        m = _TAG.match(line)
        if m:
            try:
                doc = json.loads(m.group(2))
            except Exception:
                continue
            if m.group(1) == "WITNESS":
                witnesses.append(doc)
            else:
                stats = doc
    out = p.stdout
    if "Confirmed over all paths" in out:
        status = "confirmed"
    elif "error: false when calling" in out:
        status = "cex"
    elif re.search(r": error: ", out):
        status = "exception"
    elif "Not confirmed" in out:
        status = "inconclusive"
    elif "Unable to meet precondition" in out:
        status = "vacuous"
    elif p.returncode == 124 or p.returncode == 137:
        status = "timeout"
    else:
        status = "unknown"
    msg = [l for l in out.splitlines() if l.strip()][-3:]
    return {"fn": fn, "case": case, "reach": reach, "opt": opt, "status": status, "wall_s": round(wall, 2),
            "witnesses": witnesses, "stats": stats, "message": msg, "rc": p.returncode,
            "stderr_tail": [l for l in p.stderr.splitlines() if l.strip() and not l.startswith("@@")][-5:]}


def run_replay(path, opt=False, timeout=120):
    env = base_env()
    cmd = [REAL_PY]
    if opt:
        cmd.append("-O")
    cmd += ["-m", "vlib.replay", path]
    try:
        p = subprocess.run(cmd, env=env, capture_output=True, text=True, cwd=VERIF, timeout=timeout)
    except subprocess.TimeoutExpired:
        return {"error": "replay timed out after %ss" % timeout, "hang": True}
    last = [l for l in p.stdout.splitlines() if l.startswith("@@REPLAY@@ ")]
    if not last:
        return {"error": "replay produced no result", "stderr": p.stderr[-2000:]}
    return json.loads(last[-1][len("@@REPLAY@@ "):])


def load_known():
    """known_findings.txt lines:  known: property=<id> harness=<fn> case=<glob> <text>"""
    known = []
    if os.path.exists(KNOWN_FILE):
        for line in open(KNOWN_FILE):
            line = line.strip()
            if line.startswith("known:"):
                kv = dict(re.findall(r"(\w+)=(\S+)", line))
                kv["text"] = line
                known.append(kv)
    return known


def is_known(known, pid, fn, case):
    import fnmatch
    for k in known:
        if k.get("property") == pid and k.get("harness") == fn and fnmatch.fnmatch(case, k.get("case", "*")):
            return k
    return None


def write_replay_file(pid, modname, job, witness, tag):
    d = os.path.join(VERIF, "replays", pid)
    os.makedirs(d, exist_ok=True)
    safe = re.sub(r"[^A-Za-z0-9_.-]", "_", "%s__%s%s__%s" % (job["fn"], job["case"], "_O" if job["opt"] else "", tag))
    path = os.path.join(d, safe + ".json")
    doc = {"property": pid, "module": modname, "harness": job["fn"], "case": job["case"], "opt": job["opt"],
           "kind": witness.get("kind"), "values": witness.get("values", {}),
           "symbolic_observation": witness.get("observation")}
    with open(path, "w") as f:
        json.dump(doc, f, indent=1, sort_keys=True)
    return path


def main(argv=None):
    ap = argparse.ArgumentParser()
    ap.add_argument("property")
    ap.add_argument("--tier", default=os.environ.get("VERIF_TIER", "quick"), choices=["quick", "thorough"])
    ap.add_argument("--replay")
    ap.add_argument("--only", default="")
    ap.add_argument("--jobs", type=int, default=int(os.environ.get("VERIF_JOBS", "16")))
    ap.add_argument("--no-evidence", action="store_true")
    args = ap.parse_args(argv)
    pid = args.property
    seed = int(os.environ.get("VERIF_SEED", "0") or 0)
    modname = find_module(pid)

    if args.replay:
        doc = json.load(open(args.replay))
        r = run_replay(args.replay, opt=bool(doc.get("opt")))
        print(json.dumps(r, indent=1))
        if r.get("holds") is False:
            print("VIOLATION property=%s replay=%s" % (pid, args.replay))
            return 1
        return 0 if r.get("holds") else 3

    t_start = time.time()
    meta = load_meta(modname)
    known = load_known()
    jobs = []
    for h in meta["HARNESSES"]:
        tiers = h.get("tiers", ["quick", "thorough"])
        if args.tier not in tiers:
            continue
        cases = h.get("cases", [""])
        if args.tier == "quick" and h.get("quick_cases") is not None:
            cases = h["quick_cases"]
        T = h.get("timeout", {}).get(args.tier, DEFAULT_T[args.tier]) if isinstance(h.get("timeout"), dict) \
            else h.get("timeout", DEFAULT_T[args.tier])
        per_path = h.get("per_path_timeout", max(10, T // 3))
        for case in cases:
            if args.only and args.only not in (h["fn"] + ":" + case):
                continue
            for opt in ([False, True] if h.get("opt") else [False]):
                jobs.append((h["fn"], case, False, opt, T, per_path))
                if not h.get("no_reach"):
                    jobs.append((h["fn"], case, True, opt, min(T, 60), per_path))
    if not jobs:
        raise SystemExit("no harness selected")

    results = []
    with cf.ThreadPoolExecutor(max_workers=args.jobs) as ex:
        futs = [ex.submit(run_crosshair, modname, *j) for j in jobs]
        for f in cf.as_completed(futs):
            results.append(f.result())
    results.sort(key=lambda r: (r["fn"], r["case"], r["opt"], r["reach"]))

    violations, known_hits, harness_errors, samples = [], [], [], []
    replays_ok = 0
    counts = {"confirmed": 0, "inconclusive": 0, "cex": 0, "other": 0}
    tot = {"paths": 0, "smt_queries": 0, "smt_seconds": 0.0}
    per_harness = []

    def handle_cex(job, witness, tag):
        nonlocal replays_ok
        path = write_replay_file(pid, modname, job, witness, tag)
        r = run_replay(path, opt=job["opt"])
        with open(path) as f:
            doc = json.load(f)
        doc["concrete_result"] = r
        with open(path, "w") as f:
            json.dump(doc, f, indent=1, sort_keys=True)
        return path, r

    for r in results:
        st = r["stats"]
        for k in tot:
            tot[k] += st.get(k, 0)
        entry = {k: r[k] for k in ("fn", "case", "reach", "opt", "status", "wall_s")}
        entry["paths"] = st.get("paths", 0)
        entry["smt_queries"] = st.get("smt_queries", 0)
        entry["model_hits"] = st.get("model_hits", {})
        entry["model_fallbacks"] = st.get("model_fallbacks", {})
        if r["reach"]:
            w = [x for x in r["witnesses"] if x.get("kind") == "reach"]
            if r["status"] == "cex" and w:
                path, rr = handle_cex(r, w[-1], "reach")
                if rr.get("holds") is True:
                    replays_ok += 1
                    if len(samples) < 12:
                        samples.append({"harness": r["fn"], "case": r["case"], "opt": r["opt"],
                                        "inputs": w[-1]["values"], "observation": rr.get("observation")})
                    os.remove(path)
                elif rr.get("holds") is False:
                    k = is_known(known, pid, r["fn"], r["case"])
                    (known_hits if k else violations).append((r, path, k))
                else:
                    harness_errors.append("reach witness of %s[%s] does not replay: %s" % (r["fn"], r["case"], rr))
            elif r["status"] in ("inconclusive", "timeout") and not r.get("retried"):
                # a loaded machine can starve the twin: one retry with a long budget before calling it vacuous
                r2 = run_crosshair(modname, r["fn"], r["case"], True, r["opt"], 300, 120)
                r2["retried"] = True
                results.append(r2)
                continue
            else:
                harness_errors.append("reachability twin of %s[%s]%s not refuted (%s): vacuous harness? %s %s"
                                      % (r["fn"], r["case"], " -O" if r["opt"] else "", r["status"], r["message"], r["stderr_tail"]))
            entry["role"] = "reachability twin"
            per_harness.append(entry)
            continue
        if r["status"] == "confirmed":
            counts["confirmed"] += 1
        elif r["status"] in ("inconclusive", "timeout"):
            counts["inconclusive"] += 1
        elif r["status"] == "cex":
            counts["cex"] += 1
            w = [x for x in r["witnesses"] if x.get("kind") == "cex"]
            if not w:
                harness_errors.append("%s[%s]: counter-example without witness: %s" % (r["fn"], r["case"], r["message"]))
            else:
                path, rr = handle_cex(r, w[-1], "cex")
                entry["replay"] = path
                if rr.get("holds") is False:
                    replays_ok += 1
                    k = is_known(known, pid, r["fn"], r["case"])
                    (known_hits if k else violations).append((r, path, k))
                else:
                    harness_errors.append("%s[%s]%s: counter-example does not reproduce concretely (%s) - model/harness error, see %s"
                                          % (r["fn"], r["case"], " -O" if r["opt"] else "", rr, path))
        else:
            counts["other"] += 1
            harness_errors.append("%s[%s]%s: %s %s %s" % (r["fn"], r["case"], " -O" if r["opt"] else "", r["status"], r["message"], r["stderr_tail"]))
        per_harness.append(entry)

    wall = time.time() - t_start
    for (r, path, k) in known_hits:
        print("KNOWN-FINDING: property=%s %s" % (pid, k["text"]))
    for (r, path, k) in violations:
        print("VIOLATION property=%s replay=%s" % (pid, path))
    for e in harness_errors:
        print("HARNESS-ERROR property=%s %s" % (pid, e))
    nh = counts["confirmed"] + counts["inconclusive"] + counts["cex"] + counts["other"]
    print("%s tier=%s harnesses=%d confirmed=%d inconclusive=%d cex=%d other=%d paths=%d smt_queries=%d smt_s=%.1f wall=%.1fs"
          % (pid, args.tier, nh, counts["confirmed"], counts["inconclusive"], counts["cex"], counts["other"],
             tot["paths"], tot["smt_queries"], tot["smt_seconds"], wall))
    for e in per_harness:
        if not e["reach"]:
            print("   %-32s %-28s %s%-12s paths=%-5d %6.1fs" % (e["fn"], e["case"], "-O " if e["opt"] else "", e["status"], e["paths"], e["wall_s"]))

    if not args.no_evidence:
        if not samples:
            samples = [{"note": "no reachability witness replayed in this run"}]
        ev = {
            "property_id": pid, "tier": args.tier, "seed": seed, "level": "model_checking",
            "coverage": {
                "states": max(1, tot["paths"]),
                "transitions": max(1, tot["smt_queries"]),
                "traces_validated_against_impl": replays_ok,
                "samples": samples,
                "exhaustive": counts["confirmed"] == nh and nh > 0,
                "explanation": "states = execution paths of the real functions enumerated by CrossHair (each decided by z3); "
                               "transitions = SMT queries discharged; exhaustive means every harness ended in "
                               "'Confirmed over all paths' within its stated bounds",
                "harnesses_total": nh, "harnesses_confirmed_over_all_paths": counts["confirmed"],
                "harnesses_inconclusive_bug_hunting_only": counts["inconclusive"],
                "counterexamples": counts["cex"],
                "smt_queries": tot["smt_queries"], "smt_seconds": round(tot["smt_seconds"], 2),
                "functions_encoded": meta.get("FUNCTIONS") or [],
                "bounds": meta.get("BOUNDS") or {},
                "outside_the_claim": meta.get("OUTSIDE") or [],
                "per_harness": per_harness,
                "engine": "crosshair-tool 0.0.110 + z3 (python3-vt), model library vlib/chmodels.py; replays on " + REAL_PY,
                "known_findings_reported": [k["text"] for (_, _, k) in known_hits],
                "harness_errors": harness_errors,
            },
            "assumptions": meta.get("ASSUMPTIONS") or [],
            "wall_s": round(wall, 2),
            "violations": len(violations),
        }
        os.makedirs(os.path.join(VERIF, "evidence"), exist_ok=True)
        with open(os.path.join(VERIF, "evidence", pid + ".json"), "w") as f:
            json.dump(ev, f, indent=1, sort_keys=True)

    if violations:
        return 1
    if harness_errors:
        return 3
    return 0


def _main_guarded():
    """exit 1 is reserved for 'violation found and replayed' (always with a VIOLATION line); anything that goes wrong in
    the machinery itself is a harness error: exit 3"""
    try:
        rc = main()
    except SystemExit as e:
        if isinstance(e.code, int) or e.code is None:
            raise
        print("HARNESS-ERROR %s" % (e.code,))
        return 3
    except Exception:
        import traceback
        traceback.print_exc()
        print("HARNESS-ERROR runner crashed (see traceback)")
        return 3
    return rc


if __name__ == "__main__":
    sys.exit(_main_guarded())
