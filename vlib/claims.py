"""Per-property level claims (text used in MANIFEST.json)."""
NA = {}
CHECKS = {}  # property id -> (design section, text of the level claim)


def claim(pid, design_ref, text):
    CHECKS[pid] = (design_ref, text)


claim("C07", "DESIGN.md 5/C07",
      "considerPEL / considerPELIfSeverityMatches / isHidden / isServiceable are executed symbolically for all 256 "
      "severity bytes x all 65536 action-flag words x all 64 switch combinations x every list of up to 3 severity "
      "groups (thorough: plus the option->Config mapping of main()) and compared with a branch-free statement of the "
      "documented rules; every harness must end 'Confirmed over all paths'.")

claim("C02", "DESIGN.md 5/C02",
      "generatePH / generateUH / sectionFun and the five header-type section decoders are executed on a section in which "
      "one field at a time (all values of its 1..8 bytes) is symbolic; the displayed value is compared with an oracle "
      "(numeric, BCD text, NUL-stripped text, frozen published tables, exact flag set, every target id) and every other "
      "displayed value with the decode of the unmodified template (non-interference). 84 field cases, each "
      "'Confirmed over all paths'.")

claim("C03", "DESIGN.md 5/C03",
      "SRC.toJSON / getCallouts / Callout / FRUIdentity / PCEIdentity / MRU / getErrorDetails / buildMessage / "
      "getProcedureDesc are executed on a well-formed SRC section with one field symbolic at a time (version, flag "
      "bits, word count 1..9, each 32-bit hex word, reference-code windows, every callout field) for BD/11/BC/other and "
      "primary/secondary SRCs, plus a layout sweep over 0..3 callouts x all 16 FRU flag nibbles x PCE x MRU counts with "
      "the two bytes after the section symbolic, a fixture registry for %N substitution and the procedure table; "
      "215 cases, each 'Confirmed over all paths'.")

claim("C01", "DESIGN.md 5/C01",
      "parseHeader + sectionFun are executed on one section of every decoded type with its framing fields symbolic "
      "(EH symptom length, LP name length x target count, UD/ED/other declared length, other section ids, SRC callout "
      "layouts) and the two following bytes symbolic: the cursor must stop exactly at the declared length and the entry "
      "must equal the decode of the section's own bytes; the real parsePEL loop runs on catalogue orderings with "
      "symbolic ids of hexdump-only sections against an independent naming/numbering oracle; buildOutput is driven "
      "with symbolic names. Every harness 'Confirmed over all paths'.")

claim("C05", "DESIGN.md 5/C05",
      "parsePEL (both exit_on_error values) and the -f command-line path are executed, under python3-vt and under "
      "python3-vt -O, on all byte strings up to 24 bytes, on every proper prefix of 5 catalogue PELs (cut offset "
      "symbolic) and on every single-byte corruption of them (offset symbolic per window, replacement byte symbolic); "
      "the outcome must be a rejection for prefixes / short inputs and one of {document, ordinary exception, exit "
      "status 1 on the -f path} for corruptions, each decode under a deadline that turns a non-terminating loop into a "
      "replayable counter-example.")
claim("C13", "DESIGN.md 5/C13",
      "hexdump() / parse() / printPELInHexFormat are executed with symbolic layout parameters (1..6, plus 9 concrete "
      "layouts with symbolic data length), with a sliding window of two symbolic data bytes for the default-format "
      "round trip, with a symbolic line address, and on renderings of the bytes in both I/O-drawer formats with "
      "symbolic digit case, cut or padded last line and an inserted comment/blank line; oracle: one line per started "
      "line, equal widths, offset prefix, parse(dump) == bytes. 100 cases, each 'Confirmed over all paths'.")

claim("C06", "DESIGN.md 5/C06",
      "prettyPrint is executed on the json.dumps(indent=4) line grammar of five document shapes whose keys (length 1..3, "
      "19 class patterns over quote / backslash / non-ASCII / structural characters) and string values (length 0..2, "
      "all characters symbolic over the adversarial alphabet) are symbolic, for both column widths the tool uses; "
      "every output line must be the input line with blanks inserted only directly after the key's ':' - which in "
      "every concrete replay is cross-checked with the real json.loads. 190 cases, each 'Confirmed over all paths'.")

claim("C12", "DESIGN.md 5/C12",
      "The real main() is executed for --json --clean and --file --clean in an in-memory world in which the step at "
      "which an output operation fails (open, write, flush, close, print) is a symbolic variable, as are --clean, the "
      "log's severity class and hidden/report flags (so that it may be filtered out); decodable, truncated and junk "
      "inputs. Assertion over the recorded event list: the input is removed iff --clean was given, the log was "
      "selected and decoded, and its output was emitted completely without fault - and only after that.")

claim("C11", "DESIGN.md 5/C11",
      "The real main() is executed with every boolean switch symbolic and every string option a symbolic choice "
      "(absent / catalogue value) over an in-memory tree with top-level files, an archive and a nested directory; every "
      "recorded remove must be justified by a given option under that option's rule (top level only, name contains the "
      "id, at most one), without delete/clean options nothing is removed, files are created only under --json and only "
      "as <pel file>.<entry id>.json in the chosen directory; dedicated harnesses for --delete (id spelling symbolic, "
      "id present at top level / only in the archive / nowhere / in the directory path) and --delete-all.")

claim("C10", "DESIGN.md 5/C10",
      "The real main() is executed for --plid, --bmc-id, --id, --src and --src-exclude in an in-memory world with the "
      "stored id (all 32-bit values), the queried id, its spelling (0x/0X/none, digit case), reference-code characters, "
      "query strings, exclusion-file content and the log's hidden/report flags symbolic; the listed / displayed set "
      "must be exactly the matches ('PEL not found' / empty result otherwise), with no selection option given.")

claim("C08", "DESIGN.md 5/C08",
      "The real main() is executed three times per path (-n, -l, -a) in an in-memory world on the same directory with "
      "the same symbolic options and symbolic log variants: the count, the --list entries and the --all-pels documents "
      "must refer to the same logs in file-name order; --reverse / --extension are symbolic in the ordering harness (all "
      "three modes), getFileList is executed on symbolic names, and every --list field is compared with the full decode "
      "while one header / SRC field at a time is symbolic.")

claim("C09", "DESIGN.md 5/C09",
      "The real main() is executed, per path, on a directory without and with one extra file (and on the extra file "
      "alone) for -l, -a, -n, --plid, --src, -j, -a --hex and -l --reverse; the extra file's sorted position, its "
      "content (random bytes, truncation offset, corrupted offset and replacement byte in the PH/UH ids, SRC header, SRC "
      "word count, callout header and PCE identity) are symbolic. Where the mode cannot decode the extra file, stdout "
      "(compared through the remembered JSON objects), written files and exit status must equal the run without it; in "
      "every case stdout must be one well-framed document and the exit status 0.")

claim("C04", "DESIGN.md 5/C04",
      "sectionFun -> UserData / ExtUserData / Default .toJSON -> ParseUserData.parse / parseCustom / "
      "getBuiltinFormatJSON are executed with the creator byte, component id, sub-type and version symbolic and the "
      "plugin's behaviour scripted (absent, returns object / list / string / null / None / '', raises with and without "
      "arguments, plugins disabled, unrecognised section id symbolic); the built-in text format on symbolic ASCII "
      "windows against an independent line oracle; the built-in JSON format on 10 JSON texts with symbolic padding; "
      "and, for every decoder-less path, pel.hexdump.parse applied to the displayed dump must return the payload with a "
      "2-byte symbolic window. 62 cases, each 'Confirmed over all paths'.")

claim("C18", "DESIGN.md 5/C18",
      "parseCustom, SRC.parse / toJSON / getProcedureDesc, osrc.parseSRCToJson and m2c00.parseUDToJson are executed with "
      "importlib replaced by a recorder: the requested module name for a symbolic creator letter and component id, the "
      "arguments (sub-type, version, exact payload; reference code and hex words 2..9 with each word, the word count and "
      "the creator symbolic), osrc's sub-dispatch on symbolic reference-code characters, m2c00's routing on symbolic "
      "sub-type / version, containment (one plugin call of a full PEL returns None / '' / null or raises, including "
      "ImportError / AttributeError: every other section must equal the well-behaved run and later sections must still "
      "reach their parser) and --skip-parser-plugins (no import at all). 34 cases, each 'Confirmed over all paths'.")

claim("C19", "DESIGN.md 5/C19",
      "Two solver obligations on the real parsePEL: (1) x -> y -> x inside one path over 22 catalogue pairs that share a "
      "section class, a plugin, a cache key (other creator, SRC type, drawer type) or follow a damaged / plugin-failing "
      "log, with one symbolic field in x and in y: first and third document must be equal; (2) one inductive step from "
      "every valid state of the import caches (entry symbolically absent / cached, module symbolically present / "
      "missing) for every scripted plugin behaviour: the document must equal the decode from the empty state and the "
      "cache invariant must hold afterwards. Plus --all-pels forward / reverse on good-damaged-good directories. The "
      "static inventory of mutated module/class-level state is reported in the evidence.")

claim("C14", "DESIGN.md 5/C14",
      "parse_ilog_data / PTETable / PTETableEntry are executed on buffers of 0..2 entries plus a 0..7 byte tail with the "
      "time stamp, sequence number and PTE symbolic (line format, zero-entry skip, partial-entry cut, time-stamp text "
      "and its inverse per hour), on a synthetic table of overlapping patterns with the PTE symbolic per leading nibble "
      "(first match in file order, reported-flag handling, ' - PEL entry created' suffix, parameter substitution, "
      "%-mismatch and out-of-range parameters), on stub entries with symbolic match results, and - for every distinct "
      "pattern of both shipped tables - matches(pte) against the nibble-mask statement for all 32-bit PTEs.")
claim("C16", "DESIGN.md 5/C16",
      "parse_hlog_data / get_hlog_fields are executed on two synthetic field tables (both accepted header layouts) and "
      "both shipped tables with a 3-byte symbolic window at catalogue offsets or a symbolic data length 0..full+2: "
      "the dump section must be the default-format dump of all bytes (lossless by C13), followed by exactly the non-zero "
      "fields in order with contiguous offsets, zero-padded to the field width, stopping at the first field that does "
      "not fit; and the same header path serving another table on the next call.")

claim("C15", "DESIGN.md 5/C15",
      "TraceEntry.read is executed for data lengths 0..12 and 1020..1026 with the length field, the trailing size word "
      "and the number of bytes missing at the end of the stream symbolic (accepted iff length <= 1024, everything fits "
      "and the size word equals the actual size; consumed bytes and data exact); TraceBuffer.read / parse_trace_data with "
      "the header's size field, version, wrap count and component symbolic and a second entry with a symbolic trailer; "
      "the string choice (exact, last partial modulo 100000 with warning and dump, none with notice and dump, binary "
      "entries) for all 32-bit hashes against a synthetic string file, and against two different files in one process; "
      "argument extraction for 0..5 words with %-mismatch fall-back; inputs shorter than a header are dumped losslessly.")

claim("C17", "DESIGN.md 5/C17",
      "parse_dump_data is executed on 9 catalogue layouts in which the 4 start bytes of up to two candidate headers are "
      "symbolic, with the stand-alone decoders replaced by recorders: the recorded slices must be exactly the partition "
      "given by an independent 'first occurrence of start + name' oracle (ILOG first, trace regions in address order, "
      "every byte once) with the headings / dividers of the stand-alone formatters; parse_dump_file on renderings of "
      "23..180 byte dumps in both hex formats (either digit case, cut / padded last line, last byte symbolic) must "
      "hand over the same slices as the raw bytes; empty input gives no output. 42 cases, each 'Confirmed over all paths'.")

claim("C20", "DESIGN.md 5/C20",
      "ParserData.get_signature (and, through it, the SRC parser on words 6..8 and the signature-list parser) is "
      "executed with one of the twelve signature bytes symbolic at a time, with and without a chip data fixture and with "
      "symbolic hex-digit case: chip position, node, attention type, signature id, instance and bit must come from "
      "exactly their byte positions, names / descriptions from the fixture where present (case-insensitively) and raw "
      "numbers otherwise, never an error; the register dump with symbolic data size 1..4, register instance, id byte and "
      "a second chip; scratch registers, scratch signature and callout FFDC reproduce their encoded values.")
