"""
Set-up self-test of the model library (DESIGN.md 3.1, assumption A2).

 1. M1 lemma, z3, pure QF_BV at width 64:  for every mask c harvested from /repo's AST (and a
    fixed set of extra masks)   forall x. SUM_runs urem(udiv(x,2^lo),2^len)*2^lo == x & c   (unsat of
    the negation), plus the or/xor identities  x|c == x+c-(x&c),  x^c == x+c-2(x&c).
 2. Differential test: each model is run inside a CrossHair state space on a symbolic integer
    pinned (by a solver constraint, not by realisation) to a concrete value and the realised
    result is compared with what CPython computes for that value.

Exit status 0 iff everything agrees.
"""
import ast
import glob
import os
import random
import sys
import time

import z3

REPO = os.environ.get("VERIF_REPO", "/repo")


def harvest_masks():
    masks = set()
    for path in glob.glob(os.path.join(REPO, "modules", "**", "*.py"), recursive=True):
        try:
            tree = ast.parse(open(path).read())
        except SyntaxError:
            continue
        for node in ast.walk(tree):
            if isinstance(node, ast.Constant) and isinstance(node.value, int) and not isinstance(node.value, bool):
                if 0 < node.value < 2 ** 64:
                    masks.add(node.value)
    masks.update([0xFF, 0xF0, 0x0F, 0x4000, 0x2000, 0x8000, 0x4060, 0x00040000, 0xF0000000, 0xE0000000,
                  0x0000FF00, 0x20000000, 0x02000000, 0x01000000, 0xFFFFFFFF, 0xA5A5, 0x5A5A5A5A, 0x80000001])
    return sorted(masks)


def m1_lemmas():
    from vlib.chmodels import mask_runs
    x = z3.BitVec("x", 64)
    n = 0
    for c in harvest_masks():
        terms = []
        for lo, ln in mask_runs(c):
            t = z3.URem(z3.UDiv(x, z3.BitVecVal(1 << lo, 64)), z3.BitVecVal(1 << ln, 64)) if ln < 64 else z3.UDiv(x, z3.BitVecVal(1 << lo, 64))
            terms.append(t * z3.BitVecVal(1 << lo, 64))
        s = terms[0]
        for t in terms[1:]:
            s = s + t
        cv = z3.BitVecVal(c, 64)
        for name, claim in (("and", s == (x & cv)),
                            ("or", (x | cv) == x + cv - (x & cv)),
                            ("xor", (x ^ cv) == x + cv - 2 * (x & cv)),
                            ("andnot", (x & ~cv) == x - (x & cv))):
            sol = z3.Solver()
            sol.set("timeout", 20000)
            sol.add(z3.Not(claim))
            r = sol.check()
            if str(r) != "unsat":
                print("M1 lemma FAILED for mask %#x (%s): %s" % (c, name, r))
                return False
            n += 1
    print("M1: %d bit-vector lemmas discharged (unsat)" % n)
    return True


def differential(chunk=None):
    from crosshair.core_and_libs import standalone_statespace, proxy_for_type, NoTracing
    from crosshair.core import deep_realize
    from vlib import chmodels
    from vlib.api import be
    chmodels.install()
    rnd = random.Random(12345)
    vals = [0, 1, 9, 10, 15, 16, 17, 99, 100, 255, 256, 4095, 4096, 65535, 65536, 0xFFFFFF, 0x1000000,
            0x7FFFFFFF, 0x80000000, 0xFFFFFFFF, 0x100000000, 2 ** 63, 2 ** 64 - 1]
    vals += [rnd.randrange(0, 2 ** 16) for _ in range(14)] + [rnd.randrange(0, 2 ** 64) for _ in range(5)]
    if chunk is not None:
        i, k = chunk
        vals = vals[i::k]
    specs = ["02X", "04X", "08X", "02x", "08x", "X", "x", "d", "", "2d", "02d", "5d", "016X", "0{w}X"]
    templates = ["%02X", "%08X     %s", "%04X", "%d", "%x", "%X", "%5d", "%u", "0x%04X", "%c", "%s:%d", "100%%%d"]
    masks = [0xFF, 0xF0, 0x4000, 0x4060, 0xF0000000, 0x0000FF00, ~0x40000, 0x00040000, 0xA5A5A5A5]
    bad = 0
    n = 0
    import operator
    for v in vals:
      t_v = time.time()
      with standalone_statespace as space:

        def pinned(v):
            x = proxy_for_type(int, "x%d" % space.uniq().__hash__())
            with NoTracing():
                space.add(x.var == v)
            return x

        if True:
            for spec in specs:
                spec = spec.replace("{w}", "6")
                got = deep_realize(format(pinned(v), spec))
                n += 1
                if got != format(v, spec):
                    bad += 1
                    print("M2 mismatch", v, spec, repr(got), repr(format(v, spec)))
            got = deep_realize("pre{:02X}/{:08x}post".format(pinned(v), pinned(v)))
            if got != "pre{:02X}/{:08x}post".format(v, v):
                bad += 1
                print("M2 str.format mismatch", v, got)
            got = deep_realize(f"{pinned(v):04X}-{pinned(v)}")
            if got != f"{v:04X}-{v}":
                bad += 1
                print("M2 fstring mismatch", v, got)
            for t in templates:
                if "%c" in t and v > 0x10FFFF:
                    continue
                if t.startswith("%s"):
                    args, cargs = ("ab", pinned(v)), ("ab", v)
                elif "%s" in t:
                    args, cargs = (pinned(v), "ab"), (v, "ab")
                else:
                    args, cargs = (pinned(v),), (v,)
                got = deep_realize(t % args)
                n += 1
                if got != t % cargs:
                    bad += 1
                    print("M3 mismatch", v, t, repr(got), repr(t % cargs))
            for tmpl, nargs in (("%d %d", 1), ("%08X", 2), ("a=%x b=%X c=%d", 2), ("now %d%", 1), ("mode %y", 1), ("5% low %d", 1),
                                ("100%", 0), ("%d %", 2), ("%d%%", 1)):
                sa = tuple(pinned(v) for _ in range(nargs))
                ca = tuple(v for _ in range(nargs))
                try:
                    tmpl % ca
                    exp = None
                except (TypeError, ValueError) as ex:
                    exp = type(ex).__name__ + str(ex)
                try:
                    tmpl % sa
                    got = None
                except (TypeError, ValueError) as ex:
                    got = type(ex).__name__ + str(ex)
                n += 1
                if got != exp:
                    bad += 1
                    print("M3 arity mismatch", tmpl, nargs, got, exp)
            got = deep_realize(hex(pinned(v)))
            n += 1
            if got != hex(v):
                bad += 1
                print("M4 mismatch", v, got)
            for c in masks:
                for op in (operator.and_, operator.or_, operator.xor):
                    if c < 0 and op is not operator.and_:
                        continue
                    got = deep_realize(op(pinned(v), c))
                    n += 1
                    if got != op(v, c):
                        bad += 1
                        print("M1 mismatch", v, hex(c), op.__name__, got, op(v, c))
            if v < 2 ** 32:
                got = deep_realize(bytes(be(pinned(v), 4)))
                if got != v.to_bytes(4, "big"):
                    bad += 1
                    print("be() mismatch", v, got)
                # M6 and hex(): through symbolic bytes
                from crosshair.libimpl.builtinslib import SymbolicBytes
                with NoTracing():
                    sb = SymbolicBytes(be(pinned(v), 4))
                hs = sb.hex()
                got = deep_realize(hs)
                n += 1
                if got != v.to_bytes(4, "big").hex():
                    bad += 1
                    print("bytes.hex mismatch", v, got)
                for txt in (hs, hs.upper()):
                    got = deep_realize(int(txt, 16))
                    n += 1
                    if got != v:
                        bad += 1
                        print("M6 mismatch", v, got)
                got = deep_realize(int(hs[2:6], base=16))
                if got != (v >> 8) & 0xFFFF:
                    bad += 1
                    print("M6 slice mismatch", v, got)
      if os.environ.get("VERIF_LEMMA_DEBUG"):
          print("value", v, "%.1fs" % (time.time() - t_v), flush=True)
    with standalone_statespace as space:
        def pinned(v):
            x = proxy_for_type(int, "x%d" % space.uniq().__hash__())
            with NoTracing():
                space.add(x.var == v)
            return x
        # M5
        from crosshair.libimpl.builtinslib import SymbolicBytes
        with NoTracing():
            sb = SymbolicBytes([pinned(65), pinned(0), pinned(122)])
        got = deep_realize(bytes.decode(sb))
        if got != "A\0z":
            bad += 1
            print("M5 mismatch", repr(got))
        # M10: find with a concrete needle
        hay = bytes([1, 2, 3, 2, 3, 4, 9, 2, 3, 4])
        for needle in (b"\x02\x03\x04", b"\x02\x03", b"\x09", b"\x07", b"\x03\x04\x09\x02\x03\x04", b"\x01"):
            with NoTracing():
                sb = SymbolicBytes([pinned(c) if i in (1, 4, 8) else c for i, c in enumerate(hay)])
            if deep_realize(sb.find(needle)) != hay.find(needle):
                bad += 1
                print("M10 mismatch", needle)
        # M8: ASCII upper / lower on every 7-bit character
        from crosshair.libimpl.builtinslib import LazyIntSymbolicStr
        for lo in range(0, 128, 16):
            with NoTracing():
                st = LazyIntSymbolicStr([pinned(c) for c in range(lo, lo + 16)])
            ref = "".join(chr(c) for c in range(lo, lo + 16))
            if deep_realize(st.upper()) != ref.upper() or deep_realize(st.lower()) != ref.lower():
                bad += 1
                print("M8 mismatch", lo)
    print("differential: %d comparisons, %d mismatches" % (n, bad))
    print("model hits:", chmodels.STATS["model_hits"], "fallbacks:", chmodels.STATS["model_fallbacks"])
    must = {"M1", "M2", "M3", "M4", "M5", "M6", "M8", "M10"}
    if not must <= set(chmodels.STATS["model_hits"]):
        print("some model was never exercised:", must - set(chmodels.STATS["model_hits"]))
        return False
    return bad == 0


def main():
    t0 = time.time()
    if len(sys.argv) > 2 and sys.argv[1] == "--chunk":
        i, k = sys.argv[2].split("/")
        return 0 if differential((int(i), int(k))) else 1
    import subprocess
    k = min(14, os.cpu_count() or 4)
    procs = [subprocess.Popen([sys.executable, "-B", "-m", "vlib.lemmas", "--chunk", "%d/%d" % (i, k)],
                              stdout=subprocess.PIPE, stderr=subprocess.DEVNULL, text=True) for i in range(k)]
    ok = m1_lemmas()
    for p in procs:
        out = p.communicate()[0]
        lines = [l for l in out.splitlines() if l.strip()]
        print("  worker:", " | ".join(lines[-3:]))
        ok = ok and p.returncode == 0
    print("lemmas: %s in %.1fs" % ("OK" if ok else "FAILED", time.time() - t0))
    return 0 if ok else 1


if __name__ == "__main__":
    sys.exit(main())
