"""
PEL construction (DESIGN.md 3.3).  Every field may be a concrete value or a symbolic one
(SymbolicInt / symbolic bytes from vlib.api); the result is a bytes value built with
api.mkbytes, so the same builder serves symbolic runs and concrete replays.

Layouts (big endian):
 PH 48  : hdr8 | create8 | commit8 | creator1 | rsvd2 | count1 | obmcId4 | cssver8 | plid4 | eid4
 UH 24  : hdr8 | subsys1 scope1 sev1 type1 | rsvd4 | domain1 vector1 | flags2 | states4
 PS/SS  : hdr8 | ver1 flags1 rsvd1 wc1 rsvd2 size2 | words2..9 (8x4) | ascii32 | [callouts]
  callouts: id1 flags1 wlen2 | callout*: size1 flags1 prio1 loclen1 loc |
            ['ID' size flags [pn8][ccin4][sn12]] ['PE' size flags mtm8 sn12 name] ['MR' size flags rsvd4 (prio4 id4)*]
 EH     : hdr8 | mtm8 sn12 fwrel16 fwsub16 | rsvd4 | reftime8 | rsvd3 | symlen1 | sym
 MT 28  : hdr8 | mtm8 sn12
 LP     : hdr8 | partId2 nameLen1 count1 logId4 | name | count x 2 | pad2 if count odd
 UD     : hdr8 | payload ;  ED : hdr8 | creator1 rsvd3 | payload ;  other : hdr8 | payload
"""
from vlib.api import be, mkbytes, is_sym


def _cbytes(v):
    """concrete bytes?  (CrossHair patches isinstance: a symbolic bytes value would say yes)"""
    return (not is_sym(v)) and isinstance(v, (bytes, bytearray))


def _islist(v):
    return (not is_sym(v)) and isinstance(v, list)


def _isint(v):
    if is_sym(v):
        return not hasattr(v, "inner")
    return not isinstance(v, (bytes, bytearray, list, tuple))


def u8(v):
    return [v] if _isint(v) else list(v)


def u16(v):
    return be(v, 2) if _isint(v) else list(v)


def u32(v):
    return be(v, 4) if _isint(v) else list(v)


def u64(v):
    return be(v, 8) if _isint(v) else list(v)


def txt(v, width):
    """fixed-width text field: bytes (NUL padded) or a symbolic bytes value of exactly `width`"""
    if _cbytes(v):
        assert len(v) <= width
        return list(bytes(v).ljust(width, b"\0"))
    if not is_sym(v) and isinstance(v, str):
        return txt(v.encode(), width)
    return [v]  # symbolic bytes of the right width (mkbytes flattens it)


def flat(parts):
    return mkbytes(*parts)


def size_of(parts):
    n = 0
    for p in parts:
        n += 1 if _isint(p) else len(p)
    return n


def header(sid, length, ver=1, sub=0, comp=0x2000):
    return [sid if (is_sym(sid) or not isinstance(sid, str)) else sid.encode()] + u16(length) + u8(ver) + u8(sub) + u16(comp)


BCD_CREATE = bytes.fromhex("2024031218402755")
BCD_COMMIT = bytes.fromhex("2024031218402801")


def PH(count=2, create=BCD_CREATE, commit=BCD_COMMIT, creator=0x4F, obmc=0x000001A3,
       cssver=bytes.fromhex("0102030405060708"), plid=0x50001A31, eid=0x50001A32,
       ver=1, sub=0, comp=0x2000, sid="PH", length=48, rsvd=(0, 0)):
    return (header(sid, length, ver, sub, comp) + [create, commit] + u8(creator) + list(rsvd) + u8(count)
            + u32(obmc) + u64(cssver) + u32(plid) + u32(eid))


def UH(subsys=0x8D, scope=0x03, sev=0x40, etype=0x00, domain=0x07, vector=0x09, flags=0xA800,
       states=0x00000201, ver=1, sub=0, comp=0x2000, sid="UH", length=24, rsvd=b"\0\0\0\0"):
    return (header(sid, length, ver, sub, comp) + u8(subsys) + u8(scope) + u8(sev) + u8(etype) + [rsvd]
            + u8(domain) + u8(vector) + u16(flags) + u32(states))


def fru_identity(flags=0x18 | 0x04 | 0x01, pn=b"PN12345", ccin=b"CC12", sn=b"SN123456789", size=None):
    """flags: high nibble = FRU type, low nibble pn(8)/ccin(4)/proc(2)/sn(1).  concrete flags only."""
    body = []
    if flags & 0x08 or flags & 0x02:
        body += txt(pn, 8)
    if flags & 0x04:
        body += txt(ccin, 4)
    if flags & 0x01:
        body += txt(sn, 12)
    n = 4 + size_of(body)
    return [b"ID"] + u8(n if size is None else size) + u8(flags) + body


def pce_identity(mtm=b"9105-22A", sn=b"PCESERIAL001", name=b"pcename\0", flags=0, size=None):
    body = txt(mtm, 8) + txt(sn, 12) + ([name] if not _islist(name) else name)
    n = 4 + size_of(body)
    return [b"PE"] + u8(n if size is None else size) + u8(flags) + body


def mru(entries=((0x48, 0x00010001),), flags=None, size=None, rsvd=b"\0\0\0\0"):
    body = [rsvd]
    for prio, mid in entries:
        body += u32(prio) + u32(mid)
    n = 4 + size_of(body)
    return [b"MR"] + u8(n if size is None else size) + u8(len(entries) if flags is None else flags) + body


def callout(prio=0x48, loc=b"U78DA.ND1.1234567-P0\0\0\0\0", fru=None, pce=None, mr=None, flags=0x2E, size=None,
            loclen=None):
    """loc: bytes (its length is the location-code length) or list of parts"""
    locparts = [loc] if not _islist(loc) else loc
    ll = size_of(locparts)
    subs = (fru if fru is not None else fru_identity()) + (pce or []) + (mr or [])
    n = 4 + ll + size_of(subs)
    return u8(n if size is None else size) + u8(flags) + u8(prio) + u8(ll if loclen is None else loclen) + locparts + subs


def callouts_subsection(callouts, wlen=None, sid=0xC0, flags=0):
    body = []
    for c in callouts:
        body += c
    n = 4 + size_of(body)
    assert n % 4 == 0, "callout subsection must be word aligned (%d)" % n
    return u8(sid) + u8(flags) + u16(n // 4 if wlen is None else wlen) + body


def SRC(sid="PS", flags=0x00, wc=9, words=(0x020000F0, 0x2B2C0000, 0x11223344, 0x00000000, 0xAABBCCDD, 0x12345678,
                                          0x9ABCDEF0, 0x0F1E2D3C),
        ascii=b"BD8D1234", callouts=None, version=0x02, ver=1, sub=1, comp=0x2000, size=None, length=None,
        rsvd1=0, rsvd2=0):
    if _cbytes(ascii):
        ascii = bytes(ascii).ljust(32, b" ")
    body = u8(version) + u8(flags) + u8(rsvd1) + u8(wc) + u16(rsvd2)
    tail = []
    for w in words:
        tail += u32(w)
    tail += [ascii]
    co = callouts if callouts is not None else []
    srcsize = 8 + size_of(tail) + 0
    total = 8 + 8 + size_of(tail) + size_of(co)
    body += u16(srcsize + size_of(co) if size is None else size)
    return header(sid, total if length is None else length, ver, sub, comp) + body + tail + co


def EH(mtm=b"9105-22A", sn=b"SN1357924680", fwrel=b"fw1050.00-12", fwsub=b"sub-1.2.3", reftime=BCD_CREATE,
       symptom=b"BD8D1234_2B2C0000\0\0\0", ver=1, sub=0, comp=0x2000, symlen=None, length=None,
       rsvd4=b"\0\0\0\0", rsvd3=b"\0\0\0"):
    sym = [symptom] if not _islist(symptom) else symptom
    sl = size_of(sym)
    total = 8 + 8 + 12 + 16 + 16 + 4 + 8 + 3 + 1 + sl
    return (header("EH", total if length is None else length, ver, sub, comp) + txt(mtm, 8) + txt(sn, 12)
            + txt(fwrel, 16) + txt(fwsub, 16) + [rsvd4, reftime, rsvd3] + u8(sl if symlen is None else symlen) + sym)


def MT(mtm=b"9105-22A", sn=b"SN1357924680", ver=1, sub=0, comp=0x2000, length=28):
    return header("MT", length, ver, sub, comp) + txt(mtm, 8) + txt(sn, 12)


def LP(part_id=0x0102, name=b"lpar-one\0\0\0\0", targets=(0x0011, 0x0022, 0x0033), log_id=0x0A0B0C0D,
       ver=1, sub=0, comp=0x2000, namelen=None, count=None, length=None, pad=b"\0\0"):
    nm = [name] if not _islist(name) else name
    nl = size_of(nm)
    body = u16(part_id) + u8(nl if namelen is None else namelen) + u8(len(targets) if count is None else count) \
        + u32(log_id) + nm
    for t in targets:
        body += u16(t)
    if len(targets) % 2:
        body += [pad]
    total = 8 + size_of(body)
    return header("LP", total if length is None else length, ver, sub, comp) + body


def UD(payload=b"\x01\x02\x03\x04", ver=1, sub=1, comp=0x2000, length=None, sid="UD"):
    pl = [payload] if not _islist(payload) else payload
    total = 8 + size_of(pl)
    return header(sid, total if length is None else length, ver, sub, comp) + pl


def ED(payload=b"\x01\x02\x03\x04", creator=0x4F, ver=1, sub=1, comp=0x2000, length=None, rsvd=b"\0\0\0"):
    pl = [payload] if not _islist(payload) else payload
    total = 12 + size_of(pl)
    return header("ED", total if length is None else length, ver, sub, comp) + u8(creator) + [rsvd] + pl


def OTHER(sid="DH", payload=b"\xDE\xAD\xBE\xEF", ver=1, sub=0, comp=0x1234, length=None):
    return UD(payload, ver, sub, comp, length, sid)


def PEL(*sections, ph=None, uh=None):
    """PH + UH + sections; ph/uh are keyword dicts for PH()/UH() (count filled in)."""
    phk = dict(ph or {})
    phk.setdefault("count", 2 + len(sections))
    parts = PH(**phk) + UH(**(uh or {}))
    for s in sections:
        parts += s
    return flat(parts)
